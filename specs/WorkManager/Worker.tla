-------------------------------- MODULE Worker --------------------------------
(***************************************************************************)
(* worker.Run (query/worker.go :86) as a state machine.  pc: "idle" (first *)
(* select :97), "work" (inner loop :158), "exit".  The driver receives the *)
(* result in the step that produces it (the channel is unbuffered, as the  *)
(* dispatcher's), except in QuitDuring = the hand-off select :245 with     *)
(* quit closed and no receiver left.  Actions <-> code: Job = TakeJob :99 + the cancel pre-check*)
(* :120 + Queue :147; Msg while idle = IgnoreMsg :104; Msg while working = *)
(* Resp :163 (handler, timer restart :185); Timeout :199; Disconnect :111 /*)
(* :211 (+ exit :256); Cancel :221 / :228; Quit :116 / :235.               *)
(***************************************************************************)
EXTENDS Integers, Sequences, FiniteSets, TLC, Json, WorkerProps

CONSTANTS MaxJobs, MaxMsgs

VARIABLES pc, short, res, queued, handled, fin, njobs, nmsgs, canc, abs, act, viol
vars == <<pc, short, res, queued, handled, fin, njobs, nmsgs, canc, abs, act, viol>>

Obs == [res |-> res, queued |-> queued, handled |-> handled, fin |-> fin, early |-> 0,
        exited |-> IF pc = "exit" THEN 1 ELSE 0]

Finish(a) ==
  /\ act' = a /\ abs' = AbsNext(abs, a, Obs') /\ viol' = Viol(abs, Obs, a, abs', Obs')

A(op, r, x, y) == [op |-> op, res |-> r, x |-> x, y |-> y]

Job(s, pre) ==
  /\ pc = "idle" /\ njobs < MaxJobs
  /\ njobs' = njobs + 1 /\ short' = s /\ canc' = pre
  /\ UNCHANGED <<handled, fin, nmsgs>>
  /\ IF pre # 0
     THEN /\ pc' = "idle" /\ res' = Append(res, 3) /\ UNCHANGED queued
          /\ Finish(A("Job", "r3", s, pre))
     ELSE /\ pc' = "work" /\ queued' = queued + 1 /\ UNCHANGED res
          /\ Finish(A("Job", "none", s, pre))

Msg(k) ==
  /\ pc \in {"idle", "work"} /\ nmsgs < MaxMsgs
  /\ nmsgs' = nmsgs + 1
  /\ UNCHANGED <<short, queued, njobs, canc>>
  /\ IF pc = "idle"
     THEN /\ UNCHANGED <<pc, res, handled, fin>> /\ Finish(A("Msg", "none", k, 0))
     ELSE /\ handled' = handled + 1
          /\ IF k = 2
             THEN /\ fin' = fin + 1 /\ pc' = "idle" /\ res' = Append(res, 0)
                  /\ Finish(A("Msg", "r0", k, 0))
             ELSE /\ UNCHANGED <<fin, pc, res>> /\ Finish(A("Msg", "none", k, 0))

Timeout ==
  /\ pc = "work" /\ short = 1
  /\ pc' = "idle" /\ res' = Append(res, 1)
  /\ UNCHANGED <<short, queued, handled, fin, njobs, nmsgs, canc>>
  /\ Finish(A("Timeout", "r1", 0, 0))

Disconnect ==
  /\ pc \in {"idle", "work"}
  /\ pc' = "exit"
  /\ res' = IF pc = "work" THEN Append(res, 2) ELSE res
  /\ UNCHANGED <<short, queued, handled, fin, njobs, nmsgs, canc>>
  /\ Finish(A("Disconnect", IF pc = "work" THEN "r2" ELSE "exit", 0, 0))

Cancel(x) ==
  /\ pc = "work" /\ canc = 0
  /\ canc' = x /\ pc' = "idle" /\ res' = Append(res, 3)
  /\ UNCHANGED <<short, queued, handled, fin, njobs, nmsgs>>
  /\ Finish(A("Cancel", "r3", x, 0))

Quit ==
  /\ pc \in {"idle", "work"}
  /\ pc' = "exit"
  /\ UNCHANGED <<short, res, queued, handled, fin, njobs, nmsgs, canc>>
  /\ Finish(A("Quit", "exit", 0, 0))

\* :245-253  quit is closed while the worker has a result that nobody takes
\* (the dispatcher returned first): Run must return without delivering it.
QuitDuring(x) ==
  /\ pc = "work"
  /\ x = 4 => short = 1
  /\ x = 3 => canc = 0
  /\ x \in {0, 1} => nmsgs < MaxMsgs
  /\ pc' = "exit"
  /\ handled' = IF x \in {0, 1} THEN handled + 1 ELSE handled
  /\ fin' = IF x \in {0, 1} THEN fin + 1 ELSE fin
  /\ nmsgs' = IF x \in {0, 1} THEN nmsgs + 1 ELSE nmsgs
  /\ canc' = IF x = 3 THEN 1 ELSE canc
  /\ UNCHANGED <<short, res, queued, njobs>>
  /\ Finish(A("QuitDuring", "exit", x, 0))

Init ==
  /\ pc = "idle" /\ short = 0 /\ res = <<>> /\ queued = 0 /\ handled = 0 /\ fin = 0
  /\ njobs = 0 /\ nmsgs = 0 /\ canc = 0
  /\ abs = AbsInit /\ act = A("Init", "none", 0, 0) /\ viol = {}

Next ==
  \/ \E s \in {0, 1} : \E pre \in {0, 1, 2} : Job(s, pre)
  \/ \E k \in {0, 1, 2} : Msg(k)
  \/ Timeout \/ Disconnect \/ Quit
  \/ \E x \in {1, 2} : Cancel(x)
  \/ \E x \in 0..4 : QuitDuring(x)

TypeOK == pc \in {"idle", "work", "exit"}
NoViolation == viol = {}
State == [pc |-> pc, short |-> short, res |-> res, queued |-> queued, handled |-> handled,
          fin |-> fin, njobs |-> njobs, nmsgs |-> nmsgs, canc |-> canc]
View == <<pc, short, res, queued, handled, fin, njobs, nmsgs, canc, abs>>
=============================================================================
