----------------------------- MODULE WorkerProps -----------------------------
(***************************************************************************)
(* The worker's part of C12 (query/worker.go Run): every accepted job      *)
(* yields exactly one result, whatever arrives; nil only if the request's  *)
(* handler said Finished; otherwise the error names what happened          *)
(* (timeout / disconnect / cancel); a timeout only after a full quiet      *)
(* period (progress restarts it); the worker leaves only on disconnect or  *)
(* quit.  Observables:                                                     *)
(*   obs = [res |-> Seq of result kinds handed back (0 nil, 1 timeout,     *)
(*                  2 disconnect, 3 canceled, -1 other),                   *)
(*          queued |-> number of requests sent to the peer,                *)
(*          handled |-> number of handler calls, fin |-> number of handler *)
(*          calls that returned Finished, early |-> 1 iff a timeout result *)
(*          arrived before a full timeout since the last (re)start,        *)
(*          exited |-> 1 iff Run has returned]                             *)
(*   act = [op, res, x, y]: Job(x unused, y = 0 live | 1 caller          *)
(*   cancel closed | 2 internal cancel closed), Msg(x = 0 unrelated |      *)
(*   1 progress | 2 finishes), Tick (half a job timeout of virtual time    *)
(*   passes), Disconnect, Cancel(x = 1 caller |  *)
(*   2 internal), Quit, QuitDuring(x): quit is closed while the worker is  *)
(*   handing back a result that nobody takes any more (the dispatcher has  *)
(*   left): x = 0 quit arrives while the handler of the finishing answer   *)
(*   is still running, 1 after the finishing answer, 2 after a disconnect, *)
(*   3 after a cancel, 4 after the job timeout.                            *)
(*   res: "none" | "r0".."r3" (result handed back) | "exit" | "hang".      *)
(***************************************************************************)
EXTENDS Integers, Sequences, FiniteSets

\* quiet: half timeouts of virtual time since the open job was handed over or
\* last made progress.
AbsInit == [jobs |-> 0, open |-> 0, disc |-> 0, quit |-> 0, canc |-> 0, finOpen |-> 0, quiet |-> 0]

AbsNext(a, act, o2) ==
  CASE act.op = "Job" -> [a EXCEPT !.jobs = @ + 1,
                                   !.open = IF act.y = 0 THEN 1 ELSE 0,
                                   !.canc = act.y, !.finOpen = 0, !.quiet = 0]
    [] act.op = "Msg" /\ a.open = 1 ->
         [a EXCEPT !.finOpen = IF act.x = 2 THEN 1 ELSE @,
                   !.quiet = IF act.x = 1 THEN 0 ELSE @,
                   !.open = IF act.res \in {"r0", "r1", "r2", "r3"} THEN 0 ELSE @]
    [] act.op = "Disconnect" -> [a EXCEPT !.disc = 1, !.open = 0]
    [] act.op \in {"Quit", "QuitDuring"} -> [a EXCEPT !.quit = 1, !.open = 0]
    [] act.op = "Cancel" -> [a EXCEPT !.canc = act.x,
                                      !.open = IF act.res = "r3" THEN 0 ELSE @]
    [] act.op = "Tick" -> [a EXCEPT !.open = IF act.res = "r1" THEN 0 ELSE @,
                                    !.quiet = IF a.open = 1 THEN @ + 1 ELSE @]
    [] OTHER -> a

Viol(a, o, act, a2, o2) ==
  LET new == Len(o2.res) - Len(o.res)
      last == IF Len(o2.res) > 0 THEN o2.res[Len(o2.res)] ELSE -9
      working == a.open = 1
      \* does this step end the open job with a result, and with which one?
      want == CASE act.op = "Job" /\ act.y # 0 -> 3
                [] act.op = "Msg" /\ working /\ act.x = 2 -> 0
                [] act.op = "Tick" /\ working /\ a.quiet >= 1 -> 1
                [] act.op = "Disconnect" /\ working -> 2
                [] act.op = "Cancel" /\ working -> 3
                [] OTHER -> -9
  IN
  (IF new > 1 \/ (new = 1 /\ want = -9) \/ (new = 0 /\ want # -9 /\ act.res # "hang")
   THEN {"WorkerOneResultPerJob"} ELSE {})
  \cup (IF act.res = "hang" THEN {"WorkerOneResultPerJob"} ELSE {})
  \cup (IF new = 1 /\ last = 0 /\ o2.fin = o.fin THEN {"WorkerSuccessMeansFinished"} ELSE {})
  \cup (IF new = 1 /\ want # -9 /\ last # want THEN {"WorkerResultNamesCause"} ELSE {})
  \cup (IF o2.early = 1 THEN {"WorkerTimeoutAfterQuiet"} ELSE {})
  \* a job whose peer made no progress for a full timeout yields a timeout
  \* result then - whatever else the peer sent meanwhile
  \cup (IF act.op = "Tick" /\ working /\ a.quiet >= 1 /\ ~(new = 1 /\ last = 1)
        THEN {"WorkerTimeoutWhenQuiet"} ELSE {})
  \cup (IF o2.exited = 1 /\ a2.disc = 0 /\ a2.quit = 0 THEN {"WorkerLeavesOnlyOnDisconnect"} ELSE {})
  \cup (IF o2.exited = 0 /\ (a2.disc = 1 \/ a2.quit = 1) THEN {"WorkerLeavesOnlyOnDisconnect"} ELSE {})
  \cup (IF act.op = "Job" /\ act.y # 0 /\ o2.queued # o.queued THEN {"WorkerNoSendForCanceledJob"} ELSE {})
  \* shutdown is never blocked by a worker: once quit is closed Run returns,
  \* also when it was about to hand back a result
  \cup (IF act.op \in {"Quit", "QuitDuring"} /\ o2.exited = 0 THEN {"WorkerStopReturns"} ELSE {})

EndViol(a, o) == IF Len(o.res) + a.open # a.jobs /\ a.quit = 0 THEN {"WorkerOneResultPerJob"} ELSE {}
=============================================================================
