--------------------------- MODULE TraceWorkManager ---------------------------
(***************************************************************************)
(* Trace validation (code -> spec): is a dispatcher event stream recorded  *)
(* by the hooks of query/workmanager.go (build tag verif) a behaviour of   *)
(* WorkManager.tla?  trace.ndjson holds many traces one after the other;   *)
(* Starts[t]..Ends[t] are the lines of trace t.  Every line is an action   *)
(* label in the shape of the spec's `act` (the python side maps addresses  *)
(* to numbers and inserts the unlogged environment steps an event implies: *)
(* WorkerExit before Gone, Cancel before a canceled result, HardFire       *)
(* before a hard-timeout outcome).  A line is accepted iff the spec action *)
(* it names is enabled with the logged arguments AND produces exactly the  *)
(* logged label (outcome, job, batch, request).  The hand-off target is    *)
(* taken from the log (any free worker), because the repository's tests    *)
(* rank with a mock whose order the specification cannot know.             *)
(* Each trace is its own initial state; the high-water mark of trace t is  *)
(* kept in TLC register t and written out by the postcondition.            *)
(***************************************************************************)
EXTENDS WorkManager, IOUtils

CONSTANTS Starts, Ends

VARIABLES tr, l

Trace == ndJsonDeserialize("trace.ndjson")

TInit == /\ Init
         /\ tr \in 1..Len(Starts)
         /\ l = Starts[tr]

TStep ==
  /\ l <= Ends[tr]
  /\ LET t == Trace[l] IN
     /\ CASE t.op = "Connect"    -> Connect(t.a)
          [] t.op = "Query"      -> Query(t.n, t.retr, t.nomax, t.hard, t.prog)
          [] t.op = "Dispatch"   -> DispatchTo(t.a)
          [] t.op = "Gone"       -> GoneAt(t.a)
          [] t.op = "Result"     -> ResultJ(t.a, t.i, t.j, t.e)
          [] t.op = "Wake"       -> WakeAny(t.b, t.g)
          [] t.op = "IdleElapsed" -> IdleElapsedAny(t.b, t.g)
          [] t.op = "Cancel"     -> CancelAny(t.b)
          [] t.op = "Stop"       -> StopAny
          [] t.op = "HardFire"   -> HardFire(t.b)
          [] t.op = "WorkerExit" -> WorkerExitAny(t.a, t.i)
          [] OTHER               -> FALSE
     /\ act' = t
  /\ l' = l + 1 /\ tr' = tr

HighWater == TLCSet(tr, l)

Written == JsonSerialize("hw.json", [t \in 1..Len(Starts) |-> TLCGet(t)])
=============================================================================
