------------------------------ MODULE LRUProps ------------------------------
(***************************************************************************)
(* Property C16 of cache/lru, stated over OBSERVABLES only: the results of *)
(* completed operations, Len(), Size(), Range() and the ordered iteration  *)
(* RangeFILO(), and whether the cache still answers (mutex free).          *)
(*                                                                         *)
(* The reference object is an ATOMIC sequential LRU: a list of <<key,      *)
(* value>> pairs, most recently used first.  Concurrent histories are      *)
(* judged by linearizability: abs.cfgs is the set of all configurations    *)
(* <<list, status of every pending operation>> of the atomic LRU that are  *)
(* compatible with everything observed so far.  A returned result that no  *)
(* configuration explains is a violation.                                  *)
(*                                                                         *)
(* Encoding (integers only in compared fields):                            *)
(*   keys 1..NK, values 1..NV, value v has size obs.sizes[v];              *)
(*   results: Put -> 1 evicted / 0 not, Get / Del -> the value,            *)
(*   Len / Size -> the number;  NF = not found / false, ERR = the call     *)
(*   returned an error, BLOCKED = the call is parked on the cache mutex    *)
(*   and nobody will ever release it, PANIC = the call panicked.           *)
(*   act = [op, t, k, v, step, call, ret, res, rr, w, wret, wres]          *)
(*     res = WAIT with ret = 0: the call is parked on the mutex, which a   *)
(*               call inside its locked section holds (not a result).      *)
(*     w # 0: in this step thread w, which was waiting for the mutex, got  *)
(*               it; wret = 1: its call returned in this step (after the   *)
(*               return of thread t, if any) with result wres.             *)
(*     call = 1: the operation is invoked in this step,                    *)
(*     ret  = 1: it returns in this step with result res (rr = result of   *)
(*               Range: sequence over keys of the value, 0 = absent).      *)
(*     op = "Poison": from now on Size() of value v fails (environment).   *)
(*     op = "Setup": the empty cache is pre-loaded with the entries rr     *)
(*               (sequence of <<k, v>>, most recently used first).         *)
(*     op = "Snap": nothing happens, obs is a snapshot (free-running runs) *)
(*   obs = [cap, sizes, scale, free, len, size, range, filo, isz, idx]     *)
(*     cap, sizes in UNITS; scale = the factor (a decimal string, never    *)
(*             compared) by which the driver multiplied them for the real  *)
(*             cache; Size() is reported in units, NOTMULT if it is not a  *)
(*             multiple of the factor (then it equals no sum of sizes)     *)
(*     free  = 1 Len()/Size() answer, 0 they would block (mutex held),     *)
(*             2 not observed at this step (free-running traces)           *)
(*     len, size = Len(), Size() (NA when free # 1)                        *)
(*     range = Range() as sequence over keys (0 = absent)                  *)
(*     filo  = RangeFILO() as sequence of <<k, v>>, front first            *)
(*     isz, idx = internal (size field, index -> list position); they are  *)
(*             compared for drift only and never read here.                *)
(***************************************************************************)
EXTENDS Integers, Sequences, FiniteSets

NF      == -1
ERR     == -3
BLOCKED == -7
WAIT    == -5
PANIC   == -9
NA      == -999
NOTMULT == -888

----------------------------------------------------------------------------
\* The atomic sequential LRU.
RECURSIVE SumL(_, _)
SumL(l, sizes) == IF l = <<>> THEN 0 ELSE sizes[l[1][2]] + SumL(Tail(l), sizes)

HasKey(l, k)  == \E i \in 1..Len(l) : l[i][1] = k
PosK(l, k)    == CHOOSE i \in 1..Len(l) : l[i][1] = k
ValK(l, k)    == l[PosK(l, k)][2]
RemoveK(l, k) == IF HasKey(l, k)
                 THEN LET p == PosK(l, k)
                      IN  SubSeq(l, 1, p - 1) \o SubSeq(l, p + 1, Len(l))
                 ELSE l
DropBack(l, j) == SubSeq(l, 1, Len(l) - j)

\* How many least-recently-used entries must go so that vs fits.
RECURSIVE NEvict(_, _, _, _)
NEvict(l, sizes, cap, vs) ==
  IF l = <<>> \/ cap - SumL(l, sizes) >= vs THEN 0
  ELSE 1 + NEvict(DropBack(l, 1), sizes, cap, vs)

MapOf(l, nk) == [k \in 1..nk |-> IF HasKey(l, k) THEN ValK(l, k) ELSE 0]

Out(l, res) == [l |-> l, res |-> res, rr |-> <<>>]

\* env = [bad, cap, sizes, nk].  The SET of outcomes the statement allows for
\* one operation applied atomically to list l.  Operations may fail only
\* when a size they need cannot be computed (or the value cannot fit); what a
\* failed operation leaves behind is not prescribed by the statement beyond
\* "usable", so any list obtained by dropping the touched key and/or
\* least-recently-used entries is accepted.
Apply(l, op, k, v, env) ==
  LET bad == env.bad
      cap == env.cap
      sizes == env.sizes
  IN
  CASE op = "Put" ->
         IF v \in bad \/ sizes[v] > cap THEN {Out(l, ERR)}
         ELSE LET l1 == RemoveK(l, k)
                  n  == NEvict(l1, sizes, cap, sizes[v])
                  ok == Out(<<<<k, v>>>> \o DropBack(l1, n), IF n > 0 THEN 1 ELSE 0)
                  mayfail == \E i \in 1..Len(l) : l[i][2] \in bad
              IN  {ok} \cup
                  (IF mayfail
                   THEN {Out(DropBack(x, j), ERR) : x \in {l, l1}, j \in 0..Len(l)}
                   ELSE {})
    [] op = "Get" ->
         IF HasKey(l, k)
         THEN {Out(<<<<k, ValK(l, k)>>>> \o RemoveK(l, k), ValK(l, k))}
         ELSE {Out(l, NF)}
    [] op = "Del" ->
         IF HasKey(l, k)
         THEN {Out(RemoveK(l, k), ValK(l, k))} \cup
              (IF ValK(l, k) \in bad THEN {Out(l, NF), Out(RemoveK(l, k), NF)} ELSE {})
         ELSE {Out(l, NF)}
    [] op = "Len"  -> {Out(l, Len(l))}
    [] op = "Size" -> {Out(l, SumL(l, sizes))}
    [] op = "Range" -> {[l |-> l, res |-> 0, rr |-> MapOf(l, env.nk)]}
    [] OTHER -> {Out(l, 0)}

----------------------------------------------------------------------------
\* Linearizability bookkeeping.  A configuration is [l, p]; p is the set of
\* pending operations [t, op, k, v, st, res, rr] with st = 1 invoked, not yet
\* taken effect; st = 2 taken effect with result res / rr.
LinStep(c, env) ==
  UNION {{[l |-> o.l,
           p |-> (c.p \ {q}) \cup {[q EXCEPT !.st = 2, !.res = o.res, !.rr = o.rr]}]
          : o \in Apply(c.l, q.op, q.k, q.v, env)}
         : q \in {x \in c.p : x.st = 1}}

RECURSIVE Close(_, _, _)
Close(done, frontier, env) ==
  IF frontier = {} THEN done
  ELSE LET d2  == done \cup frontier
           new == (UNION {LinStep(c, env) : c \in frontier}) \ d2
       IN  Close(d2, new, env)

Closure(cfgs, env) == Close({}, cfgs, env)

Pend(cfgs) == IF cfgs = {} THEN {} ELSE {q.t : q \in (CHOOSE c \in cfgs : TRUE).p}

\* Thread t returns res / rr: the configurations in which its call took effect
\* with exactly this result (all of them, and bad, if there is none).
RetApply(cs, t, res, rr, env) ==
  LET cl == Closure(cs, env)
      m  == {c \in cl : \E q \in c.p : q.t = t /\ q.st = 2 /\ q.res = res /\ q.rr = rr}
  IN  [cfgs |-> {[c EXCEPT !.p = {q \in @ : q.t # t}] : c \in (IF m = {} THEN cl ELSE m)},
       bad  |-> m = {}]

AbsInitOf(l) == [cfgs |-> {[l |-> l, p |-> {}]}, bad |-> {}, failed |-> 0, v |-> {}]
AbsInit == AbsInitOf(<<>>)

EnvOf(a, o) == [bad |-> a.bad, cap |-> o.cap, sizes |-> o.sizes, nk |-> Len(o.range)]

RangeEntries(o) == {<<k, o.range[k]>> : k \in {x \in 1..Len(o.range) : o.range[x] # 0}}
FiloEntries(o)  == {o.filo[i] : i \in 1..Len(o.filo)}
RECURSIVE SumSet(_, _)
SumSet(S, sizes) == IF S = {} THEN 0
                    ELSE LET x == CHOOSE y \in S : TRUE
                         IN  sizes[x[2]] + SumSet(S \ {x}, sizes)

\* abs after one logged step.  abs.v collects the names of the clauses that
\* depend on the linearisation bookkeeping and fail at this step.
AbsNext(a, act, o2) ==
  IF act.op = "Init" THEN AbsInit
  ELSE
  LET env  == EnvOf(a, o2)
      \* 0. environment: the cache is pre-loaded (act.rr, most recent first) /
      \*    a value's Size() starts failing
      c0   == IF act.op = "Setup" THEN {[l |-> act.rr, p |-> {}]}
              ELSE IF act.op = "Poison" THEN Closure(a.cfgs, env) ELSE a.cfgs
      bad1 == IF act.op = "Poison" THEN a.bad \cup {act.v} ELSE a.bad
      env1 == [env EXCEPT !.bad = bad1]
      \* 1. invocation
      c1   == IF act.call = 1
              THEN {[c EXCEPT !.p = @ \cup {[t |-> act.t, op |-> act.op, k |-> act.k, v |-> act.v,
                                            st |-> 1, res |-> 0, rr |-> <<>>]}] : c \in c0}
              ELSE c0
      \* 2. response(s): of thread t, then of a thread that got the mutex in this step
      isret == act.ret = 1 /\ act.res # BLOCKED
      r1   == IF isret THEN RetApply(c1, act.t, act.res, act.rr, env1) ELSE [cfgs |-> c1, bad |-> FALSE]
      r2   == IF act.wret = 1 THEN RetApply(r1.cfgs, act.w, act.wres, <<>>, env1)
              ELSE [cfgs |-> r1.cfgs, bad |-> FALSE]
      linbad == r1.bad \/ r2.bad
      c2   == r2.cfgs
      failed2 == IF (act.ret = 1 /\ act.res = ERR) \/ (act.wret = 1 /\ act.wres = ERR) THEN 1 ELSE a.failed
      \* 3. a quiescent snapshot must be the state of some configuration
      quiet == Pend(c2) = {} /\ o2.free = 1
      ms   == {c \in c2 : c.l = o2.filo}
      mm   == {c \in c2 : MapOf(c.l, env.nk) = o2.range}
      c3   == IF quiet THEN (IF ms = {} THEN {[l |-> o2.filo, p |-> {}]} ELSE ms) ELSE c2
      vv   == (IF linbad THEN {"Linearizable"} ELSE {})
              \cup (IF quiet /\ ~linbad /\ mm = {} THEN {"LookupLatest"} ELSE {})
              \cup (IF quiet /\ ~linbad /\ mm # {} /\ ms = {} THEN {"LRUOrder"} ELSE {})
  IN  [cfgs |-> c3, bad |-> bad1, failed |-> failed2, v |-> vv]

\* Clauses of C16 violated by this step.
Viol(a, o, act, a2, o2) ==
  LET sizes == o2.sizes
      cap   == o2.cap
      seen  == o2.free \in {0, 1}
      quiet == Pend(a2.cfgs) = {} /\ o2.free = 1
      re    == RangeEntries(o2)
      fe    == FiloEntries(o2)
  IN
  a2.v
  \* "The total size of the entries resident in a cache never exceeds its capacity"
  \cup (IF \/ (o2.free = 1 /\ (o2.size < 0 \/ o2.size > cap))
           \/ (seen /\ SumL(o2.filo, sizes) > cap)
           \/ (seen /\ SumSet(re, sizes) > cap)
        THEN {"CapacityRespected"} ELSE {})
  \* "the reported size and length equal those of the resident entries"
  \cup (IF quiet /\ o2.len # Cardinality(re) THEN {"LenExact"} ELSE {})
  \cup (IF quiet /\ o2.size # SumSet(re, sizes) THEN {"SizeExact"} ELSE {})
  \* one consistent map: the ordered iteration and the lookup index hold the same entries
  \cup (IF quiet /\ \E i, j \in 1..Len(o2.filo) : i # j /\ o2.filo[i][1] = o2.filo[j][1]
        THEN {"NoDupKeys"} ELSE {})
  \cup (IF quiet /\ fe # re THEN {"Bijection"} ELSE {})
  \* "An operation that fails leaves the cache usable"
  \cup (IF a2.failed = 1 /\ (act.res = BLOCKED \/ (Pend(a2.cfgs) = {} /\ o2.free = 0))
        THEN {"UsableAfterFailure"} ELSE {})

EndViol(a, o) == {}
=============================================================================
