--------------------------------- MODULE LRU ---------------------------------
(***************************************************************************)
(* Implementation-shaped model of cache/lru/lru.go (Cache[K,V]).           *)
(*                                                                         *)
(* Shared bookkeeping of the code:                                         *)
(*   ll     the recency list: sequence of ELEMENT ids, front first         *)
(*   elems  element id -> [k, v] (the *Element the list and the index      *)
(*          share; an element is "in the list" iff its id occurs in ll,    *)
(*          which is e.list == l in list.go: Remove / MoveToFront of an    *)
(*          element that is not in the list are no-ops)                    *)
(*   index  key -> element id, 0 = absent (the sync.Map `cache`; every     *)
(*          single access is atomic, but it is accessed OUTSIDE mtx)       *)
(*   size   the running total (uint64 in the code; a negative number here  *)
(*          is the wrapped value, the driver reads it as int64)            *)
(*   mtx    0 free, t > 0 held by thread t inside its locked section,      *)
(*          -1 held by nobody: a call returned without unlocking           *)
(*   bad    values whose Size() fails from now on (environment)            *)
(*                                                                         *)
(* Threads execute Put / Get / LoadAndDelete / Len / Size / Range as the   *)
(* code's step sequence; a step is the code between two yield points       *)
(* (verifYield hooks, build tag verif):                                    *)
(*                                                                         *)
(*   step "load"   call .. hook *.loaded   Size()/capacity checks of Put,  *)
(*                 the unlocked index Load / LoadAndDelete (lru.go Put     *)
(*                 :145, Get :189, LoadAndDelete :224); Get / Delete of an *)
(*                 absent key and the early error exits of Put return here *)
(*   step "cs"     *.loaded .. hook *.unlock   mtx.Lock and the whole      *)
(*                 locked section: RemoveOld + evict loop (:82) +          *)
(*                 PushFront / MoveToFront / Remove and the size update    *)
(*   step "unlock" *.unlock .. return or hook put.unlocked   mtx.Unlock    *)
(*                 (the evict-error exit of Put :168 does NOT unlock       *)
(*                 unless FixUnlock)                                       *)
(*   step "store"  put.unlocked .. return   the unlocked index Store :179  *)
(*   Len, Size (RLock) and Range (unlocked) are one step each.             *)
(*   "Blocked": a thread whose next step needs the mutex while mtx = -1    *)
(*   parks on it forever.                                                  *)
(*   step "cb"     with Callback (cache created WithDeleteCallback): the   *)
(*                 onDelete callback is a yield point INSIDE the locked    *)
(*                 section (the driver's callback parks).  evict calls it  *)
(*                 per victim after `c.size -= es` and before the victim   *)
(*                 leaves list and index; LoadAndDelete before it changes  *)
(*                 anything.  "cs" runs up to the first callback, "cb"     *)
(*                 from a callback to the next one or to hook *.unlock.    *)
(*   Waits: a call needing the mutex may be STARTED while another thread   *)
(*   is inside its locked section (StartWait, res = WAIT): it parks on the *)
(*   mutex, must not return or change anything, and goes on in the step in *)
(*   which the holder unlocks (act.w / wret / wres of that step).          *)
(*                                                                         *)
(* Code-version switches (the spec follows the code):                      *)
(*   FixUnlock   the evict-error exit of Put unlocks                       *)
(*   FixLocked   the index Load / LoadAndDelete / Store of Put, Get and    *)
(*               LoadAndDelete happen inside the locked section: the lock  *)
(*               is taken in step "load", the Store is part of step "cs",  *)
(*               there is no step "store"                                  *)
(*   FixPutDrop  a Put that replaces a key deletes the index entry when it *)
(*               removes the old element, so that a Put failing later (in  *)
(*               the evict loop) does not leave the index pointing at an   *)
(*               element that is no longer in the list                     *)
(*   FixDelKeep  (with FixLocked) LoadAndDelete looks the key up, and      *)
(*               deletes the index entry only after the value's size is    *)
(*               known; before, a failing Size() left the element in the   *)
(*               list with its index entry gone                            *)
(***************************************************************************)
EXTENDS Integers, Sequences, FiniteSets, TLC, Json, LRUProps

CONSTANTS NT,         \* threads 1..NT
          OpsPer,     \* operations per thread
          NK,         \* keys 1..NK
          Sizes,      \* value v in 1..Len(Sizes) has size Sizes[v]
          Cap,        \* capacity
          Scale,      \* a string: decimal uint64 factor by which the driver multiplies every size and
                      \* the capacity ("1" = as is).  The model and LRUProps work in units; a linear
                      \* scaling preserves every sum and comparison of the abstract LRU exactly, while
                      \* the code's uint64 arithmetic runs near 2^64 (capacity = math.MaxUint64 for
                      \* Cap = 3, Scale = "6148914691236517205").  The driver reports a size that is
                      \* not a multiple of the factor as NOTMULT.
          MaxEl,      \* element ids 1..MaxEl (re-used when unreferenced)
          MaxPoison,  \* how many values may start failing
          InitLists,  \* set of pre-loaded contents (sequences of <<k,v>>, MRU first)
          OpKinds,    \* subset of {"Put","Get","Del","Len","Size","Range"}
          Callback,   \* the cache has an onDelete callback (WithDeleteCallback); the callback is a
                      \* yield point inside the locked section (the driver's callback parks)
          Waits,      \* calls may be started while another thread is inside its locked section:
                      \* they park on the mutex and go on when it is released
          FixUnlock, FixLocked, FixPutDrop, FixDelKeep

VARIABLES ll, elems, index, size, mtx, bad,
          pc,     \* per thread: "idle","loaded","locked","unlocked","blocked"
          cur,    \* per thread: the running operation [op, k, v]
          lel,    \* per thread: element returned by the index access (0 = !ok)
          nel,    \* per thread: element pushed by Put (to be stored in the index)
          lres,   \* per thread: result to be returned
          ex,     \* per thread: exit kind of the locked section "ok","errA","errB","leak"
          cnt,    \* per thread: operations started
          phase,  \* 0 before Setup, 1 after
          npoison,
          abs, act, viol

Threads == 1..NT
Keys    == 1..NK
Vals    == 1..Len(Sizes)
Pool    == 1..MaxEl
NullE   == [k |-> 0, v |-> 0]
NullOp  == [op |-> "none", k |-> 0, v |-> 0]

Ops == {[op |-> "Put", k |-> k, v |-> v] : k \in Keys, v \in Vals}
       \cup {[op |-> o, k |-> k, v |-> 0] : o \in {"Get", "Del"}, k \in Keys}
       \cup {[op |-> o, k |-> 0, v |-> 0] : o \in {"Len", "Size", "Range"}}
MyOps == {o \in Ops : o.op \in OpKinds}

\* The whole state as a record, so that actions are functions S -> record.
S == [ll |-> ll, elems |-> elems, index |-> index, size |-> size, mtx |-> mtx, bad |-> bad,
      pc |-> pc, cur |-> cur, lel |-> lel, nel |-> nel, lres |-> lres, ex |-> ex,
      cnt |-> cnt, phase |-> phase, npoison |-> npoison]

InL(l, e)     == \E i \in 1..Len(l) : l[i] = e
RemoveEl(l, e) == SelectSeq(l, LAMBDA x : x # e)
PosEl(l, e)   == CHOOSE i \in 1..Len(l) : l[i] = e

LiveOf(s) == ({s.ll[i] : i \in 1..Len(s.ll)} \cup {s.index[k] : k \in Keys}
              \cup {s.lel[t] : t \in Threads} \cup {s.nel[t] : t \in Threads}) \ {0}
Fresh(s)  == CHOOSE e \in Pool \ LiveOf(s) : \A f \in Pool \ LiveOf(s) : e <= f

----------------------------------------------------------------------------
\* Observables (and the internal projection used for drift) of a state record.
ObsOf(s) ==
  LET fr == IF s.mtx = 0 THEN 1 ELSE 0
  IN  [cap   |-> Cap, sizes |-> Sizes, scale |-> Scale, cb |-> IF Callback THEN 1 ELSE 0, free |-> fr,
       len   |-> IF fr = 1 THEN Len(s.ll) ELSE NA,
       size  |-> IF fr = 1 THEN s.size ELSE NA,
       range |-> [k \in Keys |-> IF s.index[k] = 0 THEN 0 ELSE s.elems[s.index[k]].v],
       filo  |-> [i \in 1..Len(s.ll) |-> <<s.elems[s.ll[i]].k, s.elems[s.ll[i]].v>>],
       isz   |-> s.size,
       idx   |-> [k \in Keys |-> IF s.index[k] = 0 THEN 0
                                 ELSE IF InL(s.ll, s.index[k]) THEN PosEl(s.ll, s.index[k])
                                 ELSE -1]]
Obs == ObsOf(S)

A(o, t, step, call, ret, res, rr) ==
  [op |-> o.op, t |-> t, k |-> o.k, v |-> o.v, step |-> step,
   call |-> call, ret |-> ret, res |-> res, rr |-> rr, w |-> 0, wret |-> 0, wres |-> 0]

\* Unreferenced elements are reset so that histories merge.
Norm(n) ==
  LET live == LiveOf(n)
  IN  [n EXCEPT !.elems = [e \in Pool |-> IF e \in live THEN n.elems[e] ELSE NullE]]

Commit(n0, a) ==
  LET n == Norm(n0)
  IN  /\ ll' = n.ll /\ elems' = n.elems /\ index' = n.index /\ size' = n.size
      /\ mtx' = n.mtx /\ bad' = n.bad /\ pc' = n.pc /\ cur' = n.cur /\ lel' = n.lel
      /\ nel' = n.nel /\ lres' = n.lres /\ ex' = n.ex /\ cnt' = n.cnt
      /\ phase' = n.phase /\ npoison' = n.npoison
      /\ act' = a
      /\ abs' = AbsNext(abs, a, ObsOf(n))
      /\ viol' = Viol(abs, Obs, a, abs', ObsOf(n))

\* Thread t returns: its locals are cleared.
Ret(s, t) == [s EXCEPT !.pc[t] = "idle", !.cur[t] = NullOp, !.lel[t] = 0, !.nel[t] = 0,
                       !.lres[t] = 0, !.ex[t] = "ok"]

----------------------------------------------------------------------------
\* lru.go evict(needed): the loop `for c.capacity-c.size < needed` in uint64
\* arithmetic (a size above the capacity or a wrapped one makes the
\* difference huge, so nothing is evicted).
\* Does the next step of an operation o started now need the mutex?
StartNeedsLock(o) ==
  \/ o.op \in {"Len", "Size"}
  \/ FixLocked /\ o.op \in {"Get", "Del"}
  \/ FixLocked /\ o.op = "Put" /\ ~(o.v \in bad \/ Sizes[o.v] > Cap)

----------------------------------------------------------------------------
\* Step "load": invocation up to the hook after the index access, as a
\* function of the state record s (used by Start, and by Unlock for a thread
\* that was waiting for the mutex).  Result: [s, ret, res, rr].
StartFx(s, t, o) ==
  LET lk == IF FixLocked THEN t ELSE s.mtx    \* the mutex after a load that goes on
      go(s2) == [s |-> s2, ret |-> 0, res |-> 0, rr |-> <<>>]
      done(res, rr) == [s |-> Ret(s, t), ret |-> 1, res |-> res, rr |-> rr]
  IN
  CASE o.op = "Put" ->
         IF o.v \in s.bad \/ Sizes[o.v] > Cap
         THEN done(ERR, <<>>)
         ELSE go([s EXCEPT !.pc[t] = "loaded", !.cur[t] = o, !.lel[t] = s.index[o.k], !.mtx = lk])
    [] o.op = "Get" ->
         IF s.index[o.k] = 0
         THEN done(NF, <<>>)
         ELSE go([s EXCEPT !.pc[t] = "loaded", !.cur[t] = o, !.lel[t] = s.index[o.k], !.mtx = lk])
    [] o.op = "Del" ->
         IF s.index[o.k] = 0
         THEN done(NF, <<>>)
         ELSE go([s EXCEPT !.pc[t] = "loaded", !.cur[t] = o, !.lel[t] = s.index[o.k],
                           !.index[o.k] = IF FixLocked /\ FixDelKeep THEN @ ELSE 0, !.mtx = lk])
    [] o.op = "Len"  -> done(Len(s.ll), <<>>)
    [] o.op = "Size" -> done(s.size, <<>>)
    [] o.op = "Range" ->
         done(0, [k \in Keys |-> IF s.index[k] = 0 THEN 0 ELSE s.elems[s.index[k]].v])

NoWaiter == \A u \in Threads : pc[u] # "waiting"

Start(t, o) ==
  /\ phase = 1 /\ pc[t] = "idle" /\ cnt[t] < OpsPer
  /\ (t > 1 => cnt[t - 1] > 0)          \* threads are numbered in the order they first start
  /\ o \in MyOps
  /\ StartNeedsLock(o) => (mtx = 0 /\ NoWaiter)
  /\ LET fx == StartFx([S EXCEPT !.cnt[t] = @ + 1], t, o)
     IN  Commit(fx.s, A(o, t, "load", 1, fx.ret, fx.res, fx.rr))

\* A call that needs the mutex while another thread is inside its locked
\* section parks on the mutex (the invocation is visible, nothing else).  It
\* goes on when that thread unlocks (see Unlock).  One waiter at a time.
StartWait(t, o) ==
  /\ Waits /\ FixLocked /\ FixUnlock
  /\ phase = 1 /\ pc[t] = "idle" /\ cnt[t] < OpsPer
  /\ (t > 1 => cnt[t - 1] > 0)
  /\ o \in MyOps /\ StartNeedsLock(o)
  /\ mtx \in Threads /\ mtx # t /\ NoWaiter
  /\ Commit([S EXCEPT !.cnt[t] = @ + 1, !.pc[t] = "waiting", !.cur[t] = o],
            A(o, t, "load", 1, 0, WAIT, <<>>))

\* One decision of the evict loop (lru.go evict): enough room / error / victim.
EvictNext(s, needed) ==
  IF ~(s.size >= 0 /\ s.size <= Cap /\ Cap - s.size < needed) THEN [st |-> "done", e |-> 0]
  ELSE IF s.ll = <<>> THEN [st |-> "fail", e |-> 0]
  ELSE LET e == s.ll[Len(s.ll)]
       IN  IF s.elems[e].v \in s.bad THEN [st |-> "fail", e |-> 0] ELSE [st |-> "victim", e |-> e]

\* Put inside its locked section, old element already gone: run the evict
\* loop.  With Callback the thread parks inside the onDelete callback of every
\* victim: the victim's size is already subtracted, the victim is still in the
\* list and in the index (the order of lru.go evict).  lres[t] carries the
\* "evicted" flag, nel[t] the victim while in the callback.
RECURSIVE PutProgress(_, _)
PutProgress(s, t) ==
  LET o == s.cur[t]
      d == EvictNext(s, Sizes[o.v])
  IN
  CASE d.st = "fail" ->
         [s EXCEPT !.pc[t] = "locked", !.nel[t] = 0,
                   !.ex[t] = IF FixUnlock THEN "errB" ELSE "leak", !.lres[t] = ERR]
    [] d.st = "victim" ->
         LET ent == s.elems[d.e]
             s1  == [s EXCEPT !.size = @ - Sizes[ent.v]]
         IN  IF Callback
             THEN [s1 EXCEPT !.pc[t] = "cb", !.nel[t] = d.e]
             ELSE PutProgress([s1 EXCEPT !.ll = RemoveEl(@, d.e), !.index[ent.k] = 0, !.lres[t] = 1], t)
    [] OTHER ->
         LET ne == Fresh(s)
         IN  [s EXCEPT !.pc[t] = "locked",
                       !.ll = <<ne>> \o @,
                       !.elems[ne] = [k |-> o.k, v |-> o.v],
                       !.index[o.k] = IF FixLocked THEN ne ELSE @,
                       !.size = @ + Sizes[o.v],
                       !.nel[t] = ne, !.ex[t] = "ok"]

\* Step "cs": Lock (unless already held) and the locked section, up to the
\* hook before Unlock / return, or up to the first onDelete callback.
CS(t) ==
  /\ pc[t] = "loaded"
  /\ IF FixLocked THEN mtx = t ELSE mtx = 0
  /\ LET o  == cur[t]
         e  == lel[t]
         s0 == [S EXCEPT !.pc[t] = "locked", !.mtx = t]
     IN
     CASE o.op = "Put" ->
            IF e # 0 /\ elems[e].v \in bad
            THEN \* "couldn't determine size of existing cache value": unlocks
                 Commit([s0 EXCEPT !.ex[t] = "errA", !.lres[t] = ERR], A(o, t, "cs", 0, 0, 0, <<>>))
            ELSE LET s1 == IF e # 0
                           THEN [s0 EXCEPT !.ll = RemoveEl(@, e),
                                           !.size = @ - Sizes[elems[e].v],
                                           !.index[o.k] = IF FixPutDrop THEN 0 ELSE @]
                           ELSE s0
                 IN  Commit(PutProgress([s1 EXCEPT !.lres[t] = 0], t), A(o, t, "cs", 0, 0, 0, <<>>))
       [] o.op = "Get" ->
            Commit([s0 EXCEPT !.ll = IF InL(ll, e) THEN <<e>> \o RemoveEl(ll, e) ELSE ll,
                              !.lres[t] = elems[e].v],
                   A(o, t, "cs", 0, 0, 0, <<>>))
       [] o.op = "Del" ->
            IF elems[e].v \in bad
            THEN Commit([s0 EXCEPT !.lres[t] = NF], A(o, t, "cs", 0, 0, 0, <<>>))
            ELSE IF Callback
            THEN \* parked in the onDelete callback, nothing changed yet
                 Commit([s0 EXCEPT !.pc[t] = "cb"], A(o, t, "cs", 0, 0, 0, <<>>))
            ELSE Commit([s0 EXCEPT !.ll = RemoveEl(ll, e), !.size = size - Sizes[elems[e].v],
                                   !.index[o.k] = IF FixLocked /\ FixDelKeep THEN 0 ELSE @,
                                   !.lres[t] = elems[e].v],
                        A(o, t, "cs", 0, 0, 0, <<>>))

\* Step "cb": the onDelete callback returns; the locked section goes on up to
\* the next callback or the hook before Unlock.
CB(t) ==
  /\ pc[t] = "cb"
  /\ LET o == cur[t]
     IN  IF o.op = "Put"
         THEN LET e   == nel[t]
                  ent == elems[e]
              IN  Commit(PutProgress([S EXCEPT !.ll = RemoveEl(@, e), !.index[ent.k] = 0,
                                               !.lres[t] = 1, !.nel[t] = 0], t),
                         A(o, t, "cb", 0, 0, 0, <<>>))
         ELSE LET e == lel[t]
              IN  Commit([S EXCEPT !.pc[t] = "locked", !.ll = RemoveEl(@, e),
                                   !.size = @ - Sizes[elems[e].v],
                                   !.index[o.k] = IF FixLocked /\ FixDelKeep THEN 0 ELSE @,
                                   !.lres[t] = elems[e].v],
                         A(o, t, "cb", 0, 0, 0, <<>>))

\* Step "unlock".  A thread waiting for the mutex gets it in the same step
\* and runs to the hook after its index access (or returns): act.w, wret, wres.
Unlock(t) ==
  /\ pc[t] = "locked"
  /\ LET o  == cur[t]
         s0 == [S EXCEPT !.mtx = IF ex[t] = "leak" THEN -1 ELSE 0]
         ws == {u \in Threads : pc[u] = "waiting"}
     IN  IF o.op = "Put" /\ ex[t] = "ok" /\ ~FixLocked
         THEN Commit([s0 EXCEPT !.pc[t] = "unlocked"], A(o, t, "unlock", 0, 0, 0, <<>>))
         ELSE IF ws = {} \/ s0.mtx # 0
         THEN Commit(Ret(s0, t), A(o, t, "unlock", 0, 1, lres[t], <<>>))
         ELSE LET u  == CHOOSE x \in ws : TRUE
                  fx == StartFx(Ret(s0, t), u, cur[u])
              IN  Commit(fx.s, [A(o, t, "unlock", 0, 1, lres[t], <<>>)
                                EXCEPT !.w = u, !.wret = fx.ret, !.wres = fx.res])

\* Step "store" (Put only, code without FixLocked).
Store(t) ==
  /\ pc[t] = "unlocked"
  /\ LET o == cur[t]
     IN  Commit(Ret([S EXCEPT !.index[o.k] = nel[t]], t), A(o, t, "store", 0, 1, lres[t], <<>>))

\* A thread whose next step needs the mutex parks forever when the mutex was
\* leaked.
BlockedStart(t, o) ==
  /\ phase = 1 /\ pc[t] = "idle" /\ cnt[t] < OpsPer
  /\ (t > 1 => cnt[t - 1] > 0)
  /\ o \in MyOps /\ StartNeedsLock(o) /\ mtx = -1
  /\ Commit([S EXCEPT !.cnt[t] = @ + 1, !.pc[t] = "blocked", !.cur[t] = o],
            A(o, t, "load", 1, 0, BLOCKED, <<>>))

BlockedCS(t) ==
  /\ pc[t] = "loaded" /\ ~FixLocked /\ mtx = -1
  /\ Commit([S EXCEPT !.pc[t] = "blocked"], A(cur[t], t, "cs", 0, 0, BLOCKED, <<>>))

\* Environment: Size() of value v fails from now on (only while no call runs).
Poison(v) ==
  /\ phase = 1 /\ npoison < MaxPoison /\ v \notin bad
  /\ \A t \in Threads : pc[t] = "idle"
  /\ \E t \in Threads : cnt[t] < OpsPer
  /\ Commit([S EXCEPT !.bad = @ \cup {v}, !.npoison = @ + 1],
            [op |-> "Poison", t |-> 0, k |-> 0, v |-> v, step |-> "env",
             call |-> 0, ret |-> 0, res |-> 0, rr |-> <<>>, w |-> 0, wret |-> 0, wres |-> 0])

\* The empty cache is pre-loaded (sequential Puts by the driver).
Setup(l) ==
  /\ phase = 0
  /\ LET n == Len(l)
     IN  Commit([S EXCEPT !.phase = 1,
                          !.ll = [i \in 1..n |-> i],
                          !.elems = [e \in Pool |-> IF e <= n THEN [k |-> l[e][1], v |-> l[e][2]]
                                                    ELSE NullE],
                          !.index = [k \in Keys |-> IF \E i \in 1..n : l[i][1] = k
                                                    THEN CHOOSE i \in 1..n : l[i][1] = k ELSE 0],
                          !.size = SumL(l, Sizes)],
                [op |-> "Setup", t |-> 0, k |-> 0, v |-> 0, step |-> "env",
                 call |-> 0, ret |-> 0, res |-> 0, rr |-> l, w |-> 0, wret |-> 0, wres |-> 0])

Init ==
  /\ ll = <<>> /\ elems = [e \in Pool |-> NullE] /\ index = [k \in Keys |-> 0]
  /\ size = 0 /\ mtx = 0 /\ bad = {}
  /\ pc = [t \in Threads |-> "idle"] /\ cur = [t \in Threads |-> NullOp]
  /\ lel = [t \in Threads |-> 0] /\ nel = [t \in Threads |-> 0]
  /\ lres = [t \in Threads |-> 0] /\ ex = [t \in Threads |-> "ok"]
  /\ cnt = [t \in Threads |-> 0] /\ phase = 0 /\ npoison = 0
  /\ abs = AbsInit
  /\ act = [op |-> "Init", t |-> 0, k |-> 0, v |-> 0, step |-> "env",
            call |-> 0, ret |-> 0, res |-> 0, rr |-> <<>>, w |-> 0, wret |-> 0, wres |-> 0]
  /\ viol = {}

Next ==
  \/ \E l \in InitLists : Setup(l)
  \/ \E t \in Threads : \E o \in MyOps : Start(t, o) \/ StartWait(t, o) \/ BlockedStart(t, o)
  \/ \E t \in Threads : CS(t) \/ CB(t) \/ Unlock(t) \/ Store(t) \/ BlockedCS(t)
  \/ \E v \in Vals : Poison(v)

vars == <<ll, elems, index, size, mtx, bad, pc, cur, lel, nel, lres, ex, cnt, phase, npoison,
          abs, act, viol>>
Spec == Init /\ [][Next]_vars

----------------------------------------------------------------------------
TypeOK ==
  /\ mtx \in (-1..NT)
  /\ \A t \in Threads : pc[t] \in {"idle", "loaded", "locked", "unlocked", "blocked", "cb", "waiting"}
  /\ \A k \in Keys : index[k] \in 0..MaxEl
  /\ \A i \in 1..Len(ll) : ll[i] \in Pool

\* The element pool is never exhausted (otherwise MaxEl is too small).
PoolOK == Pool \ LiveOf(S) # {}

NoViolation == viol = {}

State == [ll |-> ll, elems |-> elems, index |-> index, size |-> size, mtx |-> mtx,
          bad |-> bad, pc |-> pc, cur |-> cur, lel |-> lel, nel |-> nel, lres |-> lres,
          ex |-> ex, cnt |-> cnt, phase |-> phase, npoison |-> npoison, abs |-> abs]
View == <<ll, elems, index, size, mtx, bad, pc, cur, lel, nel, lres, ex, cnt, phase, npoison, abs>>
=============================================================================
