--------------------------- MODULE ConcQueueProps ---------------------------
(***************************************************************************)
(* What the users of the unbounded ConcurrentQueue rely on (property C11:  *)
(* "in emission order with none dropped, however slowly the subscriber     *)
(* reads ... after cancellation or shutdown ... nothing further is sent";  *)
(* C17: Stop returns), stated over OBSERVABLES only: what the producer,    *)
(* the consumer and the caller of Stop see.                                *)
(*                                                                         *)
(* The producer sends the items 1, 2, 3, ... into ChanIn() in this order.  *)
(*                                                                         *)
(*   act = [op, p, c, s]                                                   *)
(*     op = "Step": the environment parties named act together (the driver *)
(*          starts them without waiting for one another) and the queue     *)
(*          then runs until nothing moves any more;                        *)
(*          "Env": one party acts, the queue does not move (model only);   *)
(*          "Arm...": one arm of the goroutine's select (model only).      *)
(*     p  = "Send" | "CloseIn" | "none"    the producer                    *)
(*     c  = "Recv" | "none"                the consumer: one `<-ChanOut()` *)
(*     s  = "Start" | "Stop" | "none"      the owner                       *)
(*   obs = [buf, started, inclosed, pend, nsent, got, cpark, eof, stop,    *)
(*          nout, ovf, settled]                                            *)
(*     buf      capacity of ChanOut()                                      *)
(*     started  1 once Start() was called                                  *)
(*     inclosed 1 once the producer closed ChanIn()                        *)
(*     nsent    number of sends the producer has begun (items 1..nsent)    *)
(*     pend     the item of a send that has not completed (0: none)        *)
(*     got      the items the consumer received, in order of receipt       *)
(*     cpark    1: the consumer is parked in `<-ChanOut()`                 *)
(*     eof      1: the consumer saw ChanOut() closed                       *)
(*     stop     0 Stop() not called, 1 called and not returned, 2 returned *)
(*     nout     len(ChanOut()): delivered and not yet received             *)
(*     ovf      the overflow list (bookkeeping: drift only, never read     *)
(*              here)                                                      *)
(*     settled  1: every goroutine is blocked (in the driver: an exact     *)
(*              observation, synctest.Wait() returned), so whatever has    *)
(*              not happened will not happen unless the environment acts   *)
(***************************************************************************)
EXTENDS Integers, Sequences

AbsInit == [x |-> 0]
AbsNext(abs, act, obs2) == abs

Accepted(o)  == o.nsent - (IF o.pend # 0 THEN 1 ELSE 0)
Delivered(o) == Len(o.got) + o.nout
Running(o)   == o.started = 1 /\ o.stop = 0 /\ o.inclosed = 0

Viol(abs, obs, act, abs2, obs2) ==
  \* What comes out of ChanOut is a prefix of what went into ChanIn: FIFO, nothing invented,
  \* nothing duplicated, no gap.
  (IF Len(obs2.got) > obs2.nsent \/ \E i \in 1..Len(obs2.got) : obs2.got[i] # i
   THEN {"FifoPrefix"} ELSE {})
  \cup
  \* While the queue runs a send into ChanIn completes even if nobody reads ChanOut.
  (IF obs2.settled = 1 /\ Running(obs2) /\ obs2.pend # 0
   THEN {"SendNeverBlocksWhileRunning"} ELSE {})
  \cup
  \* None dropped: while the queue runs, a consumer that finds nothing more to read has received
  \* everything that was accepted; ChanOut is closed (chanutils: after ChanIn was closed) only
  \* after everything accepted came out.
  (IF (obs2.settled = 1 /\ Running(obs2) /\ obs2.cpark = 1 /\ Len(obs2.got) # Accepted(obs2))
      \/ (obs2.eof = 1 /\ Len(obs2.got) # Accepted(obs2))
   THEN {"NoneDropped"} ELSE {})
  \cup
  \* After Stop returned nothing further is delivered into ChanOut.
  (IF obs.settled = 1 /\ obs.stop = 2 /\ Delivered(obs2) # Delivered(obs)
   THEN {"NothingAfterStop"} ELSE {})
  \cup
  \* Stop returns.
  (IF obs2.settled = 1 /\ obs2.stop = 1
   THEN {"StopReturns"} ELSE {})

EndViol(abs, obs) == {}
=============================================================================
