------------------------------ MODULE ConcQueue ------------------------------
(***************************************************************************)
(* The unbounded concurrent FIFO queue: one goroutine with a select loop   *)
(* that moves items from an unbuffered input channel to a buffered output  *)
(* channel and parks what does not fit in an overflow list.                *)
(*                                                                         *)
(* Two implementations of the same loop are bound to this specification:   *)
(*   chanutils.ConcurrentQueue[T]   /repo/chanutils/queue.go (the queue    *)
(*       inside chanutils.BatchWriter); HasCloseIn = TRUE: its loop has    *)
(*       the extra "input channel closed" exit that empties the overflow   *)
(*       list and closes the output channel;                               *)
(*   lnd/queue.ConcurrentQueue      the pinned dependency behind every     *)
(*       block subscription (blockntfns/manager.go:29, :212);              *)
(*       HasCloseIn = FALSE.                                               *)
(*                                                                         *)
(* Variables are the code's: chanIn is unbuffered, so all there is to it   *)
(* is the item of a producer parked in a send (pend); chanOut's buffer     *)
(* (out), a consumer parked in a receive (cpark), the overflow list (ovf), *)
(* the quit channel (quitc), where the goroutine is (gor).                 *)
(*                                                                         *)
(* ONE ACTION PER ARM of the two selects of the loop (queue.go lines):     *)
(*   ArmInDirect    :76 `item := <-chanIn` with an empty overflow list,    *)
(*                  then :86 `chanOut <- item` or :89 default -> overflow  *)
(*   ArmInOverflow  :99 `item := <-chanIn` with a non-empty overflow list  *)
(*   ArmPop         :109 `chanOut <- nextElement.Value`                    *)
(*   ArmQuit        :92 / :111 `<-quit`                                    *)
(*   ArmInClosed    :77 / :100 `!ok`: leave the loop                       *)
(*   ArmDrainPop    :122 / ArmDrainQuit :124 / ArmCloseOut :131            *)
(* plus what the runtime does for parked parties (StopReturn: wg.Wait      *)
(* returns; ConsumerEOF: a parked receiver sees the close).                *)
(* The environment (producer, consumer, owner) acts at any moment: TLC     *)
(* interleaves it with the arms.  The python side derives from the         *)
(* exported graph the SETTLED steps that can be observed on the real code  *)
(* (vlib/families/settled.py): a set of parties acts at once, then arms    *)
(* run until none is enabled.                                              *)
(***************************************************************************)
EXTENDS ConcQueueProps, FiniteSets, TLC, Json

CONSTANTS Bufs,        \* output channel capacities explored
          MaxSend,     \* items the producer sends
          HasCloseIn   \* the loop has the closed-input exit (chanutils) or not (lnd/queue)

VARIABLES buf, gor, pend, inclosed, out, ovf, cpark, got, eof, quitc, stop, nsent, abs, act, viol

\* ---- helpers ---------------------------------------------------------------
CanDeliver == cpark = 1 \/ Len(out) < buf

\* `chanOut <- x` succeeding: straight into the hands of a parked receiver, else into the buffer.
Deliver(x) ==
  IF cpark = 1 THEN /\ got' = Append(got, x) /\ cpark' = 0 /\ out' = out
               ELSE /\ out' = Append(out, x) /\ UNCHANGED <<got, cpark>>

ArmEnabled ==
  \/ gor = "loop" /\ (pend # 0 \/ inclosed = 1 \/ quitc = 1 \/ (ovf # <<>> /\ CanDeliver))
  \/ gor = "drain" /\ (ovf = <<>> \/ CanDeliver \/ quitc = 1)
  \/ stop = 1 /\ gor \in {"new", "closed", "quit"}
  \/ cpark = 1 /\ gor = "closed" /\ out = <<>>

ObsOf(b, g, p, ic, o, ov, cp, gt, ef, st, ns, settled) ==
  [buf |-> b, started |-> IF g = "new" THEN 0 ELSE 1, inclosed |-> ic, pend |-> p, nsent |-> ns,
   got |-> gt, cpark |-> cp, eof |-> ef, stop |-> st, nout |-> Len(o), ovf |-> ov,
   settled |-> IF settled THEN 1 ELSE 0]

Obs == ObsOf(buf, gor, pend, inclosed, out, ovf, cpark, got, eof, stop, nsent, ~ArmEnabled)

A(op, p, c, s) == [op |-> op, p |-> p, c |-> c, s |-> s]

\* every action ends with this
Fin(a) ==
  /\ UNCHANGED buf
  /\ act' = a
  /\ abs' = AbsNext(abs, a, Obs')
  /\ viol' = Viol(abs, Obs, a, abs', Obs')

\* ---- the environment --------------------------------------------------------
Start ==                                           \* queue.go:58 Start()
  /\ gor = "new" /\ stop = 0
  /\ gor' = "loop"
  /\ UNCHANGED <<pend, inclosed, out, ovf, cpark, got, eof, quitc, stop, nsent>>
  /\ Fin(A("Env", "none", "none", "Start"))

Send ==                                            \* `ChanIn() <- item`: parks until the goroutine takes it
  /\ pend = 0 /\ inclosed = 0 /\ nsent < MaxSend
  /\ pend' = nsent + 1 /\ nsent' = nsent + 1
  /\ UNCHANGED <<gor, inclosed, out, ovf, cpark, got, eof, quitc, stop>>
  /\ Fin(A("Env", "Send", "none", "none"))

CloseIn ==                                         \* close(ChanIn()) by the producer
  /\ HasCloseIn /\ pend = 0 /\ inclosed = 0
  /\ inclosed' = 1
  /\ UNCHANGED <<gor, pend, out, ovf, cpark, got, eof, quitc, stop, nsent>>
  /\ Fin(A("Env", "CloseIn", "none", "none"))

Recv ==                                            \* one `<-ChanOut()`
  /\ cpark = 0 /\ eof = 0
  /\ IF out # <<>>
     THEN /\ got' = Append(got, Head(out)) /\ out' = Tail(out) /\ UNCHANGED <<cpark, eof>>
     ELSE IF gor = "closed"
          THEN /\ eof' = 1 /\ UNCHANGED <<got, out, cpark>>
          ELSE /\ cpark' = 1 /\ UNCHANGED <<got, out, eof>>
  /\ UNCHANGED <<gor, pend, inclosed, ovf, quitc, stop, nsent>>
  /\ Fin(A("Env", "none", "Recv", "none"))

Stop ==                                            \* queue.go:138 Stop(): close(quit), then wg.Wait()
  /\ stop = 0
  /\ quitc' = 1 /\ stop' = 1
  /\ UNCHANGED <<gor, pend, inclosed, out, ovf, cpark, got, eof, nsent>>
  /\ Fin(A("Env", "none", "none", "Stop"))

\* ---- the goroutine: one action per select arm ---------------------------------
ArmInDirect ==
  /\ gor = "loop" /\ ovf = <<>> /\ pend # 0
  /\ pend' = 0
  /\ IF CanDeliver THEN Deliver(pend) /\ ovf' = ovf
                   ELSE ovf' = <<pend>> /\ UNCHANGED <<out, got, cpark>>
  /\ UNCHANGED <<gor, inclosed, eof, quitc, stop, nsent>>
  /\ Fin(A("ArmInDirect", "none", "none", "none"))

ArmInOverflow ==
  /\ gor = "loop" /\ ovf # <<>> /\ pend # 0
  /\ ovf' = Append(ovf, pend) /\ pend' = 0
  /\ UNCHANGED <<gor, inclosed, out, cpark, got, eof, quitc, stop, nsent>>
  /\ Fin(A("ArmInOverflow", "none", "none", "none"))

ArmPop ==
  /\ gor = "loop" /\ ovf # <<>> /\ CanDeliver
  /\ Deliver(Head(ovf)) /\ ovf' = Tail(ovf)
  /\ UNCHANGED <<gor, pend, inclosed, eof, quitc, stop, nsent>>
  /\ Fin(A("ArmPop", "none", "none", "none"))

ArmQuit ==
  /\ gor = "loop" /\ quitc = 1
  /\ gor' = "quit"
  /\ UNCHANGED <<pend, inclosed, out, ovf, cpark, got, eof, quitc, stop, nsent>>
  /\ Fin(A("ArmQuit", "none", "none", "none"))

ArmInClosed ==
  /\ gor = "loop" /\ inclosed = 1
  /\ gor' = "drain"
  /\ UNCHANGED <<pend, inclosed, out, ovf, cpark, got, eof, quitc, stop, nsent>>
  /\ Fin(A("ArmInClosed", "none", "none", "none"))

ArmDrainPop ==
  /\ gor = "drain" /\ ovf # <<>> /\ CanDeliver
  /\ Deliver(Head(ovf)) /\ ovf' = Tail(ovf)
  /\ UNCHANGED <<gor, pend, inclosed, eof, quitc, stop, nsent>>
  /\ Fin(A("ArmDrainPop", "none", "none", "none"))

ArmDrainQuit ==
  /\ gor = "drain" /\ ovf # <<>> /\ quitc = 1
  /\ gor' = "quit"
  /\ UNCHANGED <<pend, inclosed, out, ovf, cpark, got, eof, quitc, stop, nsent>>
  /\ Fin(A("ArmDrainQuit", "none", "none", "none"))

ArmCloseOut ==
  /\ gor = "drain" /\ ovf = <<>>
  /\ gor' = "closed"
  /\ UNCHANGED <<pend, inclosed, out, ovf, cpark, got, eof, quitc, stop, nsent>>
  /\ Fin(A("ArmCloseOut", "none", "none", "none"))

\* ---- the runtime waking parked parties -----------------------------------------
StopReturn ==
  /\ stop = 1 /\ gor \in {"new", "closed", "quit"}
  /\ stop' = 2
  /\ UNCHANGED <<gor, pend, inclosed, out, ovf, cpark, got, eof, quitc, nsent>>
  /\ Fin(A("StopReturn", "none", "none", "none"))

ConsumerEOF ==
  /\ cpark = 1 /\ gor = "closed" /\ out = <<>>
  /\ cpark' = 0 /\ eof' = 1
  /\ UNCHANGED <<gor, pend, inclosed, out, ovf, got, quitc, stop, nsent>>
  /\ Fin(A("ConsumerEOF", "none", "none", "none"))

Init ==
  /\ buf \in Bufs
  /\ gor = "new" /\ pend = 0 /\ inclosed = 0 /\ out = <<>> /\ ovf = <<>> /\ cpark = 0
  /\ got = <<>> /\ eof = 0 /\ quitc = 0 /\ stop = 0 /\ nsent = 0
  /\ abs = AbsInit
  /\ act = A("Init", "none", "none", "none")
  /\ viol = {}

Env  == Start \/ Send \/ CloseIn \/ Recv \/ Stop
Arms == ArmInDirect \/ ArmInOverflow \/ ArmPop \/ ArmQuit \/ ArmInClosed
        \/ ArmDrainPop \/ ArmDrainQuit \/ ArmCloseOut \/ StopReturn \/ ConsumerEOF
Next == Env \/ Arms

vars == <<buf, gor, pend, inclosed, out, ovf, cpark, got, eof, quitc, stop, nsent, abs, act, viol>>
Spec == Init /\ [][Next]_vars

State == [buf |-> buf, gor |-> gor, pend |-> pend, inclosed |-> inclosed, out |-> out, ovf |-> ovf,
          cpark |-> cpark, got |-> got, eof |-> eof, quitc |-> quitc, stop |-> stop, nsent |-> nsent]
View  == <<buf, gor, pend, inclosed, out, ovf, cpark, got, eof, quitc, stop, nsent, abs>>

TypeOK ==
  /\ buf \in Bufs /\ gor \in {"new", "loop", "drain", "closed", "quit"}
  /\ pend \in 0..MaxSend /\ nsent \in 0..MaxSend /\ Len(out) <= buf
  /\ cpark \in 0..1 /\ eof \in 0..1 /\ quitc \in 0..1 /\ stop \in 0..2 /\ inclosed \in 0..1

\* ArmEnabled is exactly "some arm can fire" (the definition of `settled` handed to the Props).
SettledIsExact == ArmEnabled <=> ENABLED Arms

\* The design as modelled satisfies every clause under every interleaving.
NoViolation == viol = {}

\* Items are neither lost nor reordered inside the queue: got \o out \o ovf (\o the pending one)
\* is always 1..nsent.
Conservation ==
  LET all == got \o out \o ovf \o (IF pend # 0 THEN <<pend>> ELSE <<>>)
  IN  all = [i \in 1..nsent |-> i]
=============================================================================
