------------------------------- MODULE UtxoScan -------------------------------
(***************************************************************************)
(* Implementation-shaped model of neutrino's UtxoScanner (utxoscanner.go)   *)
(* and its batchSpendReporter (batch_spend_reporter.go).                    *)
(*                                                                         *)
(* Goroutines: the batch manager (batchManager -> scanFromHeight), any     *)
(* number of callers (Enqueue + Result), Stop, and the chain that grows.   *)
(* The batch manager talks to its environment only through the four config *)
(* callbacks (BestSnapshot, GetBlockHash, BlockFilterMatches, GetBlock) and *)
(* the condition variable; each of these calls is a GATE at which it is    *)
(* blocked until the environment answers.  Between two gates it runs       *)
(* alone: the only shared data are pq/nextBatch (under the mutex, touched  *)
(* by the batch manager only right after GetBlockHash returns and at the   *)
(* top of its loop) and the quit channel (polled at fixed points), so      *)
(* every ordering of an Enqueue / Stop / new block relative to the code    *)
(* between two gates is equivalent to an ordering in which it happens      *)
(* while the batch manager sits in one of the two gates.  One action per   *)
(* gate answer is therefore the finest grain that matters; the code        *)
(* stretches between gates are the operators below, named after the code   *)
(* (QuitCheck, Dequeue, Process = addNewRequests + findInitialTransactions *)
(* + notifySpends, Progress, NotifyUnspent, FailRemaining, LoopTop).       *)
(*                                                                         *)
(* Callers: every request has a caller blocked in Result().  It is         *)
(* answered by the first value delivered to its resultChan, or by          *)
(* ErrShuttingDown the moment quit is closed (Result selects on quit), and *)
(* anything delivered after that is not seen by anybody.                   *)
(*                                                                         *)
(* Line numbers are those of utxoscanner.go at the commit that fixed #14a.  *)
(* Code-version switches (the spec follows the code):                      *)
(*   Fix7    the exits taken after requests were dequeued at a height      *)
(*           (GetBlock error, quit) also answer those requests              *)
(*   Fix14a  the "unspent" version of the output found in the start block  *)
(*           is kept per request instead of per outpoint                   *)
(***************************************************************************)
EXTENDS Integers, Sequences, FiniteSets, TLC, Json, UtxoScanProps

CONSTANTS Cat,       \* catalogue of requests <<txid, index, start height>>
          Best0s,    \* possible best heights at the beginning
          MaxReq,    \* Enqueue calls per history
          MaxFail,   \* failing gate answers per history
          AllowStop, \* may Stop be called
          FalsePos,  \* may the filter report a match where there is none
          Fix7, Fix14a

VARIABLES cid,       \* which chain of ChainTable (UtxoScanChains.tla)
          best,      \* best height the environment reports
          reqs,      \* sequence of requests [tx, idx, start], index = request id
          ans,       \* sequence (same length) of answer bags
          pq,        \* UtxoScanner.pq        (set of request ids)
          nextB,     \* UtxoScanner.nextBatch (set of request ids)
          pc,        \* gate at which the batch manager is blocked
          h0,        \* start height chosen by Peek() for the scan about to start
          h, endH,   \* scanFromHeight: height, endHeight
          newR,      \* scanFromHeight: newReqs (dequeued, not yet in the reporter)
          rq,        \* reporter.requests (ids; grouped by outpoint implicitly)
          itx,       \* reporter.initialTxns as seen by each request: -1 absent, 0 nil, n>0 output found at height n
          quit,      \* quit closed
          nfail,
          abs, act, viol

bvars == <<pq, nextB, pc, h0, h, endH, newR, rq, itx>>
vars  == <<cid, best, reqs, ans, pq, nextB, pc, h0, h, endH, newR, rq, itx, quit, nfail,
           abs, act, viol>>

Ids    == 1..MaxReq
Chain  == ChainTable[cid]
H      == Len(Chain)
NoItx  == [r \in Ids |-> -1]
NoD    == [r \in Ids |-> <<>>]
OpOf(r) == <<reqs[r].tx, reqs[r].idx>>
SHUT   == <<K_SHUT, 0, 0, 0>>
ERRA   == <<K_ERR, 0, 0, 0>>

MinStart(P) == CHOOSE s \in {reqs[r].start : r \in P} : \A r \in P : s <= reqs[r].start

\* pointwise merge of two delivery maps (a request is delivered to at most
\* once per step: it leaves the reporter when it is)
Merge(D1, D2) == [r \in Ids |-> IF D1[r] # <<>> THEN D1[r] ELSE D2[r]]

----------------------------------------------------------------------------
Obs == [cid |-> cid, best |-> best, pc |-> pc, h |-> h,
        quit |-> IF quit THEN 1 ELSE 0,
        reqs |-> [i \in 1..Len(reqs) |->
                    [tx |-> reqs[i].tx, idx |-> reqs[i].idx, start |-> reqs[i].start,
                     ans |-> ans[i]]]]

\* number of unanswered requests whose start height is above the tip
Above == Cardinality({i \in 1..Len(reqs) : ans[i] = <<>> /\ reqs[i].start > best})

----------------------------------------------------------------------------
\* batchManager :216-253, reached whenever scanFromHeight has returned:
\* re-queue nextBatch, wait while the queue is empty, Peek the least start
\* height, leave if quit.  (When the queue is empty and quit is closed the
\* manager parks and Stop's 50 ms signal wakes it: PC_WAKE.)
LoopTop(P, NB, D) ==
  LET P2 == P \cup NB
      z  == [pc |-> PC_IDLE, h0 |-> 0, h |-> 0, endH |-> 0, pq |-> P2, nextB |-> {},
             newR |-> {}, rq |-> {}, itx |-> NoItx, d |-> D]
  IN  IF P2 = {} THEN [z EXCEPT !.pc = IF quit THEN PC_WAKE ELSE PC_IDLE]
      ELSE IF quit THEN [z EXCEPT !.pc = PC_EXIT, !.pq = {}]   \* Stop :166 pops what is left
      ELSE [z EXCEPT !.pc = PC_BEST0, !.h0 = MinStart(P2)]

\* reporter.FailRemaining(x) (batch_spend_reporter.go :87) and return; NR = requests dequeued at this
\* height that are not in the reporter yet.
FailAll(x, P, NB, RQ, NR, D) ==
  LET D2 == [r \in Ids |-> IF r \in RQ \/ (Fix7 /\ r \in NR) THEN x ELSE <<>>]
  IN  LoopTop(P, NB, Merge(D, D2))

\* Head of the for loop :305 for candidate height hh, with the QuitCheck :308.
Enter(hh, E, P, NB, RQ, ITX, D) ==
  IF hh <= E
  THEN IF quit THEN FailAll(SHUT, P, NB, RQ, {}, D)
       ELSE [pc |-> PC_HASH, h0 |-> 0, h |-> hh, endH |-> E, pq |-> P, nextB |-> NB,
             newR |-> {}, rq |-> RQ, itx |-> ITX, d |-> D]
  ELSE [pc |-> PC_TAIL, h0 |-> 0, h |-> 0, endH |-> E, pq |-> P, nextB |-> NB,
        newR |-> {}, rq |-> RQ, itx |-> ITX, d |-> D]

\* The script (an integer id) an outpoint pays to.  Every output of a chain
\* transaction carries its script id (field scr, one per output; several
\* outputs - of one transaction or of different ones - may carry the SAME id:
\* address re-use).  A request names its script itself (Input.PkScript): the
\* driver hands in the script of the real output, or, for an outpoint that
\* no transaction of the chain creates (index out of range), a script of its
\* own that no output pays to (negative id).
ScriptOf(op) ==
  LET S == { Chain[hh][p].scr[op[2] + 1] :
               <<hh, p>> \in { x \in (1..H) \X (1..8) :
                                 /\ x[2] <= Len(Chain[x[1]])
                                 /\ Chain[x[1]][x[2]].id = op[1]
                                 /\ op[2] >= 0 /\ op[2] < Chain[x[1]][x[2]].nout } }
  IN  IF S = {} THEN 0 - (op[1] * 100 + op[2] + 1) ELSE CHOOSE x \in S : TRUE

\* What the (true) basic filter of block hh is built from (besides the
\* coinbase): the script of every output the block creates and of every
\* output it spends (BIP 158).
BlockScripts(hh) ==
  UNION { { Chain[hh][p].scr[k] : k \in 1..Chain[hh][p].nout } \cup
          { ScriptOf(Chain[hh][p].ins[q]) : q \in 1..Len(Chain[hh][p].ins) }
          : p \in 1..Len(Chain[hh]) }

\* Does the (true) basic filter of block hh match the reporter's watch list
\* (filterEntries = the scripts of the outpoints still requested: rebuilt
\* from the per-outpoint map batch_spend_reporter.go :137-:143, appended :163): the block creates or spends ANY
\* output paying to a watched SCRIPT - the watched outpoint itself or another
\* output with the same script.
TrueMatch(hh, RQ) ==
  \E r \in RQ : ScriptOf(OpOf(r)) \in BlockScripts(hh)

\* reporter.ProcessBlock (batch_spend_reporter.go :120) for block hh with the freshly dequeued NR.
Process(hh, NR, RQ, ITX) ==
  LET blk  == Chain[hh]
      RQ1  == RQ \cup NR                                          \* addNewRequests :149
      ini(n) == IF Creates(blk, OpOf(n)) THEN hh ELSE 0           \* findInitialTransactions :174
      ITX1 == [r \in Ids |->
                 IF r \in NR THEN ini(r)
                 ELSE IF ~Fix14a /\ r \in RQ1 /\ \E n \in NR : OpOf(n) = OpOf(r)
                 THEN ini(CHOOSE n \in NR : OpOf(n) = OpOf(r))    \* shared entry overwritten
                 ELSE ITX[r]]
      pos(r) == { <<p, q>> \in (1..Len(blk)) \X (1..8) :
                    q <= Len(blk[p].ins) /\ blk[p].ins[q] = OpOf(r) }
      first(r) == CHOOSE x \in pos(r) : \A y \in pos(r) :
                    x[1] < y[1] \/ (x[1] = y[1] /\ x[2] <= y[2])
      spent == { r \in RQ1 : pos(r) # {} }                        \* notifySpends :256
  IN  [rq  |-> RQ1 \ spent,
       itx |-> [r \in Ids |-> IF r \in spent THEN -1 ELSE ITX1[r]],
       d   |-> [r \in Ids |-> IF r \in spent
                              THEN <<K_SPEND, hh, blk[first(r)[1]].id, first(r)[2] - 1>>
                              ELSE <<>>]]

\* reporter.NotifyUnspentAndUnfound (batch_spend_reporter.go :61)
Unspent(RQ, ITX) ==
  [r \in Ids |-> IF r \notin RQ THEN <<>>
                 ELSE IF ITX[r] > 0 THEN <<K_UTXO, ITX[r], reqs[r].tx, reqs[r].idx>>
                 ELSE <<K_EMPTY, 0, 0, 0>>]

----------------------------------------------------------------------------
Act(op, a, b, c, res) == [op |-> op, a |-> a, b |-> b, c |-> c, res |-> res]

Finish(a) ==
  /\ act'  = a
  /\ abs'  = AbsNext(abs, a, Obs')
  /\ viol' = Viol(abs, Obs, a, abs', Obs')

\* the batch manager moves to record n (fields of bvars plus deliveries d);
\* a delivery reaches the caller only while quit is open (see header).
Commit(n) ==
  /\ pc' = n.pc /\ h0' = n.h0 /\ h' = n.h /\ endH' = n.endH
  /\ pq' = n.pq /\ nextB' = n.nextB /\ newR' = n.newR /\ rq' = n.rq /\ itx' = n.itx
  /\ ans' = [i \in 1..Len(reqs) |->
               IF n.d[i] # <<>> /\ ~quit THEN Append(ans[i], n.d[i]) ELSE ans[i]]
  /\ UNCHANGED <<cid, best, reqs, quit>>

Fail == nfail < MaxFail

----------------------------------------------------------------------------
\* UtxoScanner.Enqueue :175 (+ the caller entering Result)
Enqueue(c) ==
  LET r  == [tx |-> Cat[c][1], idx |-> Cat[c][2], start |-> Cat[c][3]]
      id == Len(reqs) + 1
  IN
  /\ Len(reqs) < MaxReq
  /\ reqs' = Append(reqs, r)
  /\ UNCHANGED <<cid, best, quit, nfail, nextB, h0, h, endH, newR, rq, itx>>
  /\ IF quit
     THEN /\ ans' = Append(ans, <<SHUT>>)       \* Enqueue returns ErrShuttingDown
          /\ UNCHANGED <<pq, pc>>
          /\ Finish(Act("Enqueue", r.tx, r.idx, r.start, "err"))
     ELSE /\ ans' = Append(ans, <<>>)
          /\ pq' = pq \cup {id}
          /\ pc' = IF pc = PC_IDLE THEN PC_WAKE ELSE pc      \* cv.Signal
          /\ Finish(Act("Enqueue", r.tx, r.idx, r.start, "ok"))

\* a block arrives
NewBlock ==
  /\ best < H
  /\ best' = best + 1
  /\ UNCHANGED <<cid, reqs, ans, quit, nfail>> /\ UNCHANGED bvars
  /\ Finish(Act("NewBlock", best + 1, 0, 0, "ok"))

\* UtxoScanner.Stop :147 up to close(quit); every caller still waiting in
\* Result leaves with ErrShuttingDown.  The rest of Stop (waiting for the
\* batch manager, failing what is left in pq) happens when the manager exits.
Stop ==
  /\ AllowStop /\ ~quit
  /\ quit' = TRUE
  /\ ans' = [i \in 1..Len(reqs) |-> IF ans[i] = <<>> THEN <<SHUT>> ELSE ans[i]]
  /\ pc' = IF pc = PC_IDLE THEN PC_WAKE ELSE pc             \* Stop's periodic cv.Signal
  /\ UNCHANGED <<cid, best, reqs, nfail, pq, nextB, h0, h, endH, newR, rq, itx>>
  /\ Finish(Act("Stop", 0, 0, 0, "ok"))

\* A cv.Signal that finds the manager parked although the queue is empty:
\* Enqueue signals AFTER it has released the lock (:202-203), so the signal of
\* an earlier Enqueue can arrive after the manager has served that request
\* and parked again.  The manager wakes, finds the queue empty and waits again
\* (Wake below).  Observed on the real scanner in free-running executions.
LateSignal ==
  /\ pc = PC_IDLE /\ ~quit /\ Len(reqs) > 0
  /\ pc' = PC_WAKE
  /\ UNCHANGED <<cid, best, reqs, ans, quit, nfail, pq, nextB, h0, h, endH, newR, rq, itx>>
  /\ Finish(Act("Signal", 0, 0, 0, "ok"))

\* cv.Wait returns :226-237
Wake ==
  /\ pc = PC_WAKE
  /\ UNCHANGED nfail
  /\ Commit(IF quit
            THEN [LoopTop({}, {}, NoD) EXCEPT !.pc = PC_EXIT]
            ELSE LoopTop(pq, nextB, NoD))
  /\ Finish(Act("Wake", 0, 0, 0, "ok"))

\* scanFromHeight :285 BestSnapshot at the start of a scan
BatchStart(res) ==
  /\ pc = PC_BEST0
  /\ \/ res = "ok" /\ UNCHANGED nfail
        /\ Commit(Enter(h0, best, pq, nextB, {}, NoItx, NoD))
     \/ res = "fail" /\ Fail /\ nfail' = nfail + 1
        /\ Commit(LoopTop(pq, nextB, NoD))                   \* plain `return err`
  /\ Finish(Act("BatchStart", 0, best, 0, res))

\* GetBlockHash :314, then Dequeue :321 (dequeueAtHeight :258), fetch decision, QuitCheck :351
GetHash(res) ==
  /\ pc = PC_HASH
  /\ \/ res = "fail" /\ Fail /\ nfail' = nfail + 1
        /\ Commit(FailAll(ERRA, pq, nextB, rq, {}, NoD))
     \/ res = "ok" /\ UNCHANGED nfail
        /\ LET old == {r \in pq : reqs[r].start < h}
               NR  == {r \in pq : reqs[r].start = h}
               P2  == pq \ (old \cup NR)
               NB2 == nextB \cup old
           IN  IF NR = {}
               THEN Commit([pc |-> PC_FILTER, h0 |-> 0, h |-> h, endH |-> endH, pq |-> P2,
                            nextB |-> NB2, newR |-> {}, rq |-> rq, itx |-> itx, d |-> NoD])
               ELSE IF quit
               THEN Commit(FailAll(SHUT, P2, NB2, rq, NR, NoD))
               ELSE Commit([pc |-> PC_BLOCK, h0 |-> 0, h |-> h, endH |-> endH, pq |-> P2,
                            nextB |-> NB2, newR |-> NR, rq |-> rq, itx |-> itx, d |-> NoD])
  /\ Finish(Act("GetHash", h, 0, 0, res))

\* BlockFilterMatches :330 with the reporter's watch list, Progress :338, QuitCheck :351.
\* The callback is the one NewChainService wires in (neutrino.go :969): rescan.go
\* blockFilterMatches over ChainSource.GetCFilter, whose outcome is the environment's choice:
\*   the block's filter        => match iff a watched script is in the block ("match"/"nomatch")
\*   a filter with a false positive for the watched scripts (only if something is watched)
\*   ErrFilterFetchFailed (or any other error) => the scan fails            ("fail")
\*   headerfs.ErrHashNotFound "block reorged out" => no match, no error, next height ("stale")
\* fp = 1: the environment served a filter with a false positive (the block's entries plus
\* everything any request names) on a block whose true filter does not match the watch list;
\* fp = 0: it served the block's true filter, and the helper's answer depends on the reporter's
\* watch list alone.
FilterMatch(res, fp) ==
  /\ pc = PC_FILTER
  /\ \/ res = "fail" /\ fp = 0 /\ Fail /\ nfail' = nfail + 1
        /\ Commit(FailAll(ERRA, pq, nextB, rq, {}, NoD))
     \/ res = "nomatch" /\ fp = 0 /\ ~TrueMatch(h, rq) /\ UNCHANGED nfail
        /\ Commit(Enter(h + 1, endH, pq, nextB, rq, itx, NoD))
     \/ res = "stale" /\ fp = 0 /\ Fail /\ nfail' = nfail + 1
        /\ Commit(Enter(h + 1, endH, pq, nextB, rq, itx, NoD))
     \/ res = "match" /\ UNCHANGED nfail
        /\ \/ fp = 0 /\ TrueMatch(h, rq)
           \/ fp = 1 /\ ~TrueMatch(h, rq) /\ FalsePos /\ rq # {}
        /\ IF quit THEN Commit(FailAll(SHUT, pq, nextB, rq, {}, NoD))
           ELSE Commit([pc |-> PC_BLOCK, h0 |-> 0, h |-> h, endH |-> endH, pq |-> pq,
                        nextB |-> nextB, newR |-> {}, rq |-> rq, itx |-> itx, d |-> NoD])
  /\ Finish(Act("FilterMatch", h, fp, 0, res))

\* GetBlock :360, QuitCheck :367, Process :376, Progress :377
GetBlock(res) ==
  /\ pc = PC_BLOCK
  /\ \/ res = "fail" /\ Fail /\ nfail' = nfail + 1
        /\ Commit(FailAll(ERRA, pq, nextB, rq, newR, NoD))
     \/ res = "ok" /\ UNCHANGED nfail
        /\ IF quit THEN Commit(FailAll(SHUT, pq, nextB, rq, newR, NoD))
           ELSE LET p == Process(h, newR, rq, itx)
                IN  Commit(Enter(h + 1, endH, pq, nextB, p.rq, p.itx, p.d))
  /\ Finish(Act("GetBlock", h, 0, 0, res))

\* BestSnapshot :384 after the last height: more blocks => keep scanning,
\* else NotifyUnspent :397 and return.
TailCheck(res) ==
  /\ pc = PC_TAIL
  /\ \/ /\ res = "fail" /\ Fail /\ nfail' = nfail + 1
        /\ Commit(FailAll(ERRA, pq, nextB, rq, {}, NoD))
        /\ Finish(Act("Tail", 0, best, Above, "fail"))
     \/ /\ res = "ok" /\ UNCHANGED nfail
        /\ LET n == IF best > endH
                    THEN Enter(endH + 1, best, pq, nextB, rq, itx, NoD)
                    ELSE LoopTop(pq, nextB, Unspent(rq, itx))
           IN  /\ Commit(n)
               /\ Finish(Act("Tail", 0, best, Above,
                             IF n.pc = PC_HASH THEN "more" ELSE "done"))

Init ==
  /\ cid \in 1..Len(ChainTable)
  /\ best \in {b \in Best0s : b <= Len(ChainTable[cid])}
  /\ reqs = <<>> /\ ans = <<>>
  /\ pq = {} /\ nextB = {} /\ pc = PC_IDLE /\ h0 = 0 /\ h = 0 /\ endH = 0
  /\ newR = {} /\ rq = {} /\ itx = NoItx
  /\ quit = FALSE /\ nfail = 0
  /\ abs = AbsInit
  /\ act = Act("Init", 0, 0, 0, "ok")
  /\ viol = {}

Next ==
  \/ \E c \in 1..Len(Cat) : Enqueue(c)
  \/ NewBlock
  \/ Stop
  \/ LateSignal
  \/ Wake
  \/ \E res \in {"ok", "fail"} : BatchStart(res)
  \/ \E res \in {"ok", "fail"} : GetHash(res)
  \/ \E res \in {"match", "nomatch", "fail", "stale"} : \E fp \in {0, 1} : FilterMatch(res, fp)
  \/ \E res \in {"ok", "fail"} : GetBlock(res)
  \/ \E res \in {"ok", "fail"} : TailCheck(res)

Spec == Init /\ [][Next]_vars

----------------------------------------------------------------------------
TypeOK ==
  /\ pc \in 0..7
  /\ Len(reqs) = Len(ans) /\ Len(reqs) <= MaxReq
  /\ pq \subseteq 1..Len(reqs) /\ nextB \subseteq 1..Len(reqs) /\ rq \subseteq 1..Len(reqs)
  /\ newR \subseteq 1..Len(reqs)
  /\ best \in 0..H /\ nfail \in 0..MaxFail

\* a request is in at most one place
Disjoint ==
  /\ pq \cap nextB = {} /\ pq \cap rq = {} /\ nextB \cap rq = {}
  /\ newR \cap (pq \cup nextB \cup rq) = {}

NoViolation == viol = {}

State == [cid |-> cid, best |-> best, reqs |-> reqs, ans |-> ans, pq |-> pq, nextB |-> nextB,
          pc |-> pc, h0 |-> h0, h |-> h, endH |-> endH, newR |-> newR, rq |-> rq, itx |-> itx,
          quit |-> quit, nfail |-> nfail, due |-> abs.due, over |-> abs.over, stale |-> abs.stale,
          post |-> abs.post]
View == <<cid, best, reqs, ans, pq, nextB, pc, h0, h, endH, newR, rq, itx, quit, nfail, abs>>
=============================================================================
