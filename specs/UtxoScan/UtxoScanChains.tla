--------------------------- MODULE UtxoScanChains ---------------------------
(***************************************************************************)
(* The chains a run uses.  This file is the default (the 3-block chain of  *)
(* the quick tier); vlib/families/utxoscan.py generates a module of the    *)
(* same name for every configuration from the same description that is     *)
(* handed to the Go driver, and puts it in front of this one.              *)
(* A chain is a sequence of blocks (index = height), a block a sequence of *)
(* transactions [id, nout, ins, scr, cb], ins a sequence of outpoints      *)
(* <<txid, n>>, scr the script id of every output (default id*10 + n;      *)
(* outputs with the same id pay to the same script: address re-use),       *)
(* cb = 1: the transaction is the block's coinbase (first transaction of   *)
(* the real block, no inputs; the fate of its outputs is that of any       *)
(* other output, so no operator reads the field - it tells the driver      *)
(* where to put the transaction).                                          *)
(***************************************************************************)
ChainTable ==
  << << << [id |-> 1, nout |-> 2, ins |-> <<>>, scr |-> <<10, 11>>, cb |-> 0] >>,
        << [id |-> 2, nout |-> 1, ins |-> <<>>, scr |-> <<20>>, cb |-> 0],
           [id |-> 3, nout |-> 1, ins |-> << <<2, 0>>, <<1, 0>> >>, scr |-> <<30>>, cb |-> 0] >>,
        << [id |-> 4, nout |-> 1, ins |-> << <<1, 0>> >>, scr |-> <<40>>, cb |-> 0],
           [id |-> 5, nout |-> 1, ins |-> << <<9, 0>>, <<1, 0>>, <<1, 1>> >>, scr |-> <<50>>, cb |-> 0] >> >> >>
=============================================================================
