---------------------------- MODULE UtxoScanProps ----------------------------
(***************************************************************************)
(* Property C10 ("GetUtxo reports the true fate of an outpoint, exactly    *)
(* once") over OBSERVABLES only.  The same operators are evaluated by TLC  *)
(* (a) on every transition of UtxoScan.tla and (b) on every step of every  *)
(* trace observed on the real UtxoScanner.                                 *)
(*                                                                         *)
(* Encoding (integers only in everything that is compared):                *)
(*  obs.cid    which chain of ChainTable (module UtxoScanChains, generated *)
(*             per run from the same description the driver builds its     *)
(*             real blocks from) the environment serves; index = height    *)
(*             1..H; a block is a sequence of transactions [id, nout, ins, *)
(*             scr, cb] (cb = 1: the block's coinbase, read by the driver  *)
(*             only) where ins is a sequence of outpoints <<txid, index>>  *)
(*             and scr the script id of every output (equal ids = address  *)
(*             re-use; used by the model to predict filter matches, never  *)
(*             by a clause: the fate of an outpoint does not depend on it) *)
(*  obs.best   best height the environment currently reports (blocks above *)
(*             it have not arrived yet)                                    *)
(*  obs.pc     where the batch manager goroutine is blocked (PC_* below):  *)
(*             every call it makes to its environment is a gate            *)
(*  obs.h      height of the hash / filter / block gate, else 0            *)
(*  obs.quit   1 once Stop has been called                                 *)
(*  obs.reqs   one record per GetUtxo request in order of the Enqueue      *)
(*             calls: [tx, idx, start, ans]; ans is the BAG (a sequence in *)
(*             arrival order) of answers the caller of that request got:   *)
(*             <<K_SPEND, height, spending txid, input index>>             *)
(*             <<K_UTXO, block height, txid, index>>   the output itself   *)
(*             <<K_EMPTY,0,0,0>>  nil report           <<K_ERR,0,0,0>>     *)
(*             <<K_SHUT,0,0,0>>  ErrShuttingDown       <<K_BAD,..>> other  *)
(* act = [op, a, b, c, res]                                                *)
(***************************************************************************)
EXTENDS Integers, Sequences, FiniteSets, UtxoScanChains

PC_IDLE   == 0   \* parked in cv.Wait, queue empty
PC_WAKE   == 1   \* woken (Enqueue / Stop signalled), about to re-take the lock
PC_BEST0  == 2   \* BestSnapshot at the start of a scan (start height already chosen)
PC_HASH   == 3   \* GetBlockHash(h)
PC_FILTER == 4   \* BlockFilterMatches(h)
PC_BLOCK  == 5   \* GetBlock(h)
PC_TAIL   == 6   \* BestSnapshot after the last height (best-height re-check)
PC_EXIT   == 7   \* batch manager returned and Stop completed
PC_PANIC  == 8   \* batch manager died in a panic
PC_HUNG   == 9   \* batch manager (or Stop) did not get anywhere within the bound

K_SPEND == 1
K_UTXO  == 2
K_EMPTY == 3
K_ERR   == 4
K_SHUT  == 5
K_BAD   == 6

BmOps == {"Wake", "BatchStart", "GetHash", "FilterMatch", "GetBlock", "Tail"}

\* The calls the batch manager makes to its ENVIRONMENT (BestSnapshot,
\* GetBlockHash, BlockFilterMatches -> GetCFilter, GetBlock): each is one
\* unit of work of unbounded cost (a database read, a filter match over the
\* watch list, a network round trip).  Wake is the condition variable, not
\* an environment call.
EnvOps == BmOps \ {"Wake"}

\* C17 "Stopping the client returns within a bounded time from any state ...
\* with ... UTXO scans ... in flight".  In the gated driver "time" is exact
\* and independent of the machine: the NUMBER of environment calls the scan
\* still makes after Stop was called (quit closed) until the batch manager
\* has returned.  "Bounded" = bounded by a constant that does not depend on
\* how many heights the scan still has in front of it.  The constant used:
\* the call that is in flight when Stop is called plus one complete round of
\* the per-height calls (hash, filter, block).  An implementation that looks
\* at the quit channel only once per height stays within it; one that walks
\* on to the tip exceeds it on every chain with more than two heights left
\* (>= 2 calls per remaining height).  The chains of the C17 slice leave up
\* to seven heights.
PerHeightCalls == 3
StopWorkBound  == 1 + PerHeightCalls

----------------------------------------------------------------------------
\* The statement's case analysis.  Positions <<height, tx position, input
\* position>> of every input of the chain between heights lo and hi.
Positions(chain, lo, hi) ==
  UNION { UNION { { <<hh, p, q>> : q \in 1..Len(chain[hh][p].ins) }
                  : p \in 1..Len(chain[hh]) }
          : hh \in lo..hi }

LexLeq(x, y) ==
  \/ x[1] < y[1]
  \/ x[1] = y[1] /\ x[2] < y[2]
  \/ x[1] = y[1] /\ x[2] = y[2] /\ x[3] <= y[3]

Creates(blk, op) ==
  \E p \in 1..Len(blk) : blk[p].id = op[1] /\ op[2] >= 0 /\ op[2] < blk[p].nout

\* "the earliest transaction, input index and height that spends the outpoint
\* at or after the request's start height if the scanned chain contains one;
\* otherwise the output itself if the start block creates it; otherwise an
\* empty report" - the scanned chain being heights start..b.
\* gone: heights whose block the environment itself declared reorganised
\* out of the chain (see `stale` below); {} for the chain as it is.
FateEx(op, start, chain, b, gone) ==
  LET top == IF b < Len(chain) THEN b ELSE Len(chain)
      S   == { x \in Positions(chain, start, top) :
                 x[1] \notin gone /\ chain[x[1]][x[2]].ins[x[3]] = op }
  IN  IF S # {}
      THEN LET e == CHOOSE x \in S : \A y \in S : LexLeq(x, y)
           IN  <<K_SPEND, e[1], chain[e[1]][e[2]].id, e[3] - 1>>
      ELSE IF start >= 1 /\ start <= top /\ Creates(chain[start], op)
      THEN <<K_UTXO, start, op[1], op[2]>>
      ELSE <<K_EMPTY, 0, 0, 0>>

Fate(op, start, chain, b) == FateEx(op, start, chain, b, {})

\* Is answer x the fate f?  For the unspent output only its identity is
\* compared (the statement says "the output itself").
Same(x, f) ==
  CASE f[1] = K_SPEND -> x = f
    [] f[1] = K_UTXO  -> x[1] = K_UTXO /\ x[3] = f[3] /\ x[4] = f[4]
    [] OTHER          -> x[1] = K_EMPTY

Answered(o, i)   == Len(o.reqs[i].ans) > 0
Unanswered(o)    == { i \in 1..Len(o.reqs) : ~Answered(o, i) }

\* Nothing will ever move again without a new external call: the batch
\* manager is parked with an empty queue, has returned, or is dead.
Quiescent(o) == o.pc \in {PC_IDLE, PC_EXIT, PC_PANIC, PC_HUNG}

\* answers of request i that are new in o2
NewAns(o, o2, i) ==
  LET old == IF i <= Len(o.reqs) THEN Len(o.reqs[i].ans) ELSE 0
  IN  { o2.reqs[i].ans[k] : k \in (old + 1)..Len(o2.reqs[i].ans) }

----------------------------------------------------------------------------
\* Abstract state: has Stop been called; `due`: the requests that were
\* already queued when the batch manager last chose the start height of a
\* scan (it does so when it lands on PC_BEST0); `over`: those of them that the
\* last scan that completed without error left unanswered.  The statement
\* does not say in which scan a request is served (one that arrives while a
\* scan is running may wait for the next), so a single completed scan that
\* skips a queued request is not yet "left waiting".  But a request that was
\* queued before each of TWO scans that both ran to completion without error
\* and is still unanswered has been passed over with nothing changed in
\* between that could make a third scan different: that is the finite
\* witness of "left waiting" used here (besides quiescence).
\* `stale`: heights for which the environment answered the filter fetch
\* with "this block is not in the chain any more" (headerfs.ErrHashNotFound
\* from GetCFilter; act FilterMatch, res "stale").  The environment of this
\* family never reorganises, so such an answer contradicts the blocks it
\* serves: for a request answered after it, the scanned chain is the chain
\* with or without each of those blocks - either reading is accepted.  With
\* no such answer in the trace (stale = {}) nothing changes.  A filter fetch
\* that FAILS (res "fail") says nothing about the chain: the block stays.
\* `post`: environment calls answered after Stop was called (C17, above).
AbsInit == [quit |-> FALSE, due |-> {}, over |-> {}, stale |-> {}, post |-> 0]

AbsNext(a, act, o2) ==
  [quit |-> a.quit \/ act.op = "Stop",
   due  |-> IF act.op \in BmOps /\ o2.pc = PC_BEST0
            THEN 1..Len(o2.reqs) ELSE a.due,
   over |-> IF act.op = "Tail" /\ act.res = "done"
            THEN a.due \cap Unanswered(o2) ELSE a.over,
   stale |-> IF act.op = "FilterMatch" /\ act.res = "stale"
             THEN a.stale \cup {act.a} ELSE a.stale,
   post |-> IF a.quit /\ act.op \in EnvOps THEN a.post + 1 ELSE a.post]

Legal(x, r, act, a2, o2) ==
  CASE x[1] = K_SHUT -> a2.quit                       \* "or the client shuts down"
    [] x[1] = K_ERR  -> act.op \in BmOps /\ act.res = "fail"   \* "the scan cannot complete"
    [] x[1] \in {K_SPEND, K_UTXO, K_EMPTY} ->
         \E gone \in SUBSET a2.stale :
            Same(x, FateEx(<<r.tx, r.idx>>, r.start, ChainTable[o2.cid], o2.best, gone))
    [] OTHER -> FALSE

Viol(a, o, act, a2, o2) ==
  (IF \E i \in 1..Len(o2.reqs) : Len(o2.reqs[i].ans) > 1
   THEN {"AnsweredAtMostOnce"} ELSE {})
  \cup
  (IF \E i \in 1..Len(o2.reqs) : \E x \in NewAns(o, o2, i) :
         ~Legal(x, o2.reqs[i], act, a2, o2)
   THEN {"AnswerIsFate"} ELSE {})
  \cup
  (IF \/ Quiescent(o2) /\ Unanswered(o2) # {}
      \/ act.op = "Tail" /\ act.res = "done" /\
            \E i \in a.over \cap a.due \cap Unanswered(o2) : o2.reqs[i].start <= o2.best
   THEN {"NoCallerLeftWaiting"} ELSE {})
  \cup
  \* the same for a request whose start height is above the tip: the scanned
  \* range is empty, so the statement's answer is the empty report; it is a
  \* clause of its own so that a finding about it cannot hide anything else
  (IF act.op = "Tail" /\ act.res = "done" /\
        \E i \in a.over \cap a.due \cap Unanswered(o2) : o2.reqs[i].start > o2.best
   THEN {"NoCallerLeftWaitingAboveTip"} ELSE {})
  \cup
  \* C17 (reported by the C17 check, not by C10): the work the scan does after
  \* Stop was called is bounded independently of the heights left
  (IF a2.post > StopWorkBound THEN {"StopBoundedWork"} ELSE {})
  \cup
  \* C17: Stop returns - once Stop was called neither the batch manager nor
  \* Stop itself may be found stuck (driver bound: >= 100x a normal step)
  (IF a2.quit /\ o2.pc = PC_HUNG THEN {"StopReturnsDuringScan"} ELSE {})

\* Liveness at the end of a finite trace: if the trace ends quiescent every
\* request must have exactly one answer.
EndViol(a, o) ==
  IF Quiescent(o) /\ Unanswered(o) # {} THEN {"NoCallerLeftWaiting"} ELSE {}
=============================================================================
