------------------------------ MODULE HeaderList ------------------------------
(***************************************************************************)
(* headerlist.BoundedMemoryChain (headerlist/bounded_header_list.go) and   *)
(* Node.Prev / Node.Ancestor (headerlist/header_list.go), shaped like the  *)
(* code: a slice of `cap` slots, headPtr, tailPtr, len; every slot holds a *)
(* Node whose prev / ancestor fields are POINTERS TO SLOTS (here: slot     *)
(* numbers 1..cap, 0 = nil), so that a slot overwritten by a wrapped-      *)
(* around PushBack changes what older nodes point to.  That is the         *)
(* behaviour the Props operators guard: a stale or wrapped-around element  *)
(* must never be reachable.                                                *)
(*                                                                         *)
(* The chain is single-threaded (blockManager owns it), so one action per  *)
(* call: PushBack (bounded_header_list.go:90-149) and ResetHeaderState     *)
(* (:52-58, which is "forget the pointers, PushBack").  Heights are the    *)
(* ones blockManager uses: a reset names any height, every push carries    *)
(* the height of Back() plus one (blockmanager.go:2790, :2929, :3012).     *)
(***************************************************************************)
EXTENDS HeaderListProps, FiniteSets, TLC, Json

CONSTANTS Caps,        \* capacities explored, e.g. {1,2,3,4}
          MaxOps,      \* calls per history
          MaxResets,   \* ResetHeaderState calls per history
          Bases,       \* heights a reset (or the first push of a fresh chain) may name
          RelDepths    \* a reset may also name Back().Height - d, d in RelDepths (fork point of a reorg)

VARIABLES cap, slots, head, tail, len, ret, nops, nres, abs, act, viol

NullNode == [id |-> 0, h |-> 0, prev |-> 0, anc |-> 0]

\* ---- header_list.go ------------------------------------------------------
RECURSIVE LowBit(_)
LowBit(n) == IF n % 2 = 1 THEN 1 ELSE 2 * LowBit(n \div 2)
InvertLowestOne(n) == IF n <= 0 THEN 0 ELSE n - LowBit(n)                   \* :57  n & (n-1)
AncestorHeight(h) == IF h <= 0 THEN 0 ELSE InvertLowestOne(InvertLowestOne(h))   \* :66-72

\* Node.Ancestor (:95-120) from slot i for target height t; `fuel` bounds the loop: HANG stands
\* for "the loop does not terminate" (the code has no bound of its own).
RECURSIVE AncWalk(_, _, _, _)
AncWalk(sl, i, t, fuel) ==
  IF i = 0 THEN 0
  ELSE IF sl[i].h = t THEN i
  ELSE IF fuel = 0 THEN HANG
  ELSE LET n == sl[i]  a == n.anc
       IN  IF a # 0 /\ AncestorHeight(n.h) >= t /\ sl[a].h >= t /\ sl[a].h < n.h     \* :107-110
           THEN AncWalk(sl, a, t, fuel - 1)
           ELSE AncWalk(sl, n.prev, t, fuel - 1)                                      \* :116
Ancestor(sl, i, t) == IF i = 0 \/ t > sl[i].h THEN 0 ELSE AncWalk(sl, i, t, 4 * Len(sl) + 4)

\* ---- bounded_header_list.go ------------------------------------------------
\* PushBack(n) on bookkeeping b = [slots, head, tail, len]; returns the new bookkeeping and the
\* slot whose address is returned.
Push(b, k, id, h) ==
  LET prevElem == IF b.tail # -1 /\ k # 1 THEN b.tail + 1 ELSE 0          \* :93-105
      tail2    == (b.tail + 1) % k                                        \* :109-110
      wrap     == tail2 <= b.head \/ b.head = -1                          \* :115
      head2    == IF wrap THEN (b.head + 1) % k ELSE b.head               \* :116-117
      sl1      == IF wrap THEN [b.slots EXCEPT ![head2 + 1].prev = 0] ELSE b.slots    \* :121
      sl2      == [sl1 EXCEPT ![tail2 + 1] = [id |-> id, h |-> h, prev |-> prevElem, anc |-> 0]]  \* :127-138
      a        == IF prevElem = 0 THEN 0 ELSE Ancestor(sl2, prevElem, AncestorHeight(h))          \* :139 buildAncestor (header_list.go:78-84)
      sl3      == [sl2 EXCEPT ![tail2 + 1].anc = IF a < 0 THEN 0 ELSE a]
  IN  [slots |-> sl3, head |-> head2, tail |-> tail2,
       len |-> IF b.len + 1 > k THEN k ELSE b.len + 1, ret |-> tail2 + 1]

Book == [slots |-> slots, head |-> head, tail |-> tail, len |-> len]

\* ---- observables -------------------------------------------------------------
RECURSIVE ChainFrom(_, _, _)
ChainFrom(sl, i, fuel) ==
  IF i = 0 THEN <<>>
  ELSE IF fuel = 0 THEN <<[id |-> LOOP, h |-> LOOP]>>
  ELSE <<[id |-> sl[i].id, h |-> sl[i].h]>> \o ChainFrom(sl, sl[i].prev, fuel - 1)

ObsOf(b, k, r) ==
  LET empty == b.tail = -1 /\ b.head = -1                                 \* Back() :64-70, Front() :76-82
      bk    == IF empty THEN 0 ELSE b.tail + 1
      fr    == IF empty THEN 0 ELSE b.head + 1
      ch    == ChainFrom(b.slots, bk, k + 2)
      bh    == IF bk = 0 THEN NIL ELSE b.slots[bk].h
      idOf(i) == IF i = HANG THEN HANG ELSE IF i = 0 THEN NIL ELSE b.slots[i].id
  IN  [cap |-> k,
       back |-> IF bk = 0 THEN NIL ELSE b.slots[bk].id, backH |-> bh,
       front |-> IF fr = 0 THEN NIL ELSE b.slots[fr].id,
       frontH |-> IF fr = 0 THEN NIL ELSE b.slots[fr].h,
       frontPrev |-> IF fr = 0 THEN NIL ELSE idOf(b.slots[fr].prev),
       chain |-> [i \in 1..Len(ch) |-> ch[i].id], heights |-> [i \in 1..Len(ch) |-> ch[i].h],
       anc |-> IF bk = 0 THEN <<>> ELSE [t1 \in 1..(bh + 2) |-> idOf(Ancestor(b.slots, bk, t1 - 1))],
       retBack |-> IF r = 0 \/ r = bk THEN 1 ELSE 0,
       ptrs |-> <<b.head, b.tail, b.len>>,
       slots |-> [i \in 1..k |-> <<b.slots[i].id, b.slots[i].h, b.slots[i].prev, b.slots[i].anc>>]]

Obs == ObsOf(Book, cap, ret)

\* ---- actions -------------------------------------------------------------------
Fin(a, b2, r) ==
  /\ slots' = b2.slots /\ head' = b2.head /\ tail' = b2.tail /\ len' = b2.len /\ ret' = r
  /\ nops' = nops + 1
  /\ act' = a
  /\ abs' = AbsNext(abs, a, ObsOf(b2, cap, r))
  /\ viol' = Viol(abs, Obs, a, abs', ObsOf(b2, cap, r))
  /\ UNCHANGED cap

NextHeights == IF tail = -1 THEN Bases ELSE {slots[tail + 1].h + 1}

PushBack(h) ==
  /\ nops < MaxOps
  /\ LET id == nops + 1
         b2 == Push(Book, cap, id, h)
     IN  Fin([op |-> "PushBack", id |-> id, h |-> h, res |-> b2.slots[b2.ret].id], b2, b2.ret)
  /\ UNCHANGED nres

ResetHeights == Bases \cup (IF tail = -1 THEN {} ELSE {slots[tail + 1].h - d : d \in RelDepths} \cap (0..1000))

Reset(h) ==
  /\ nops < MaxOps /\ nres < MaxResets
  /\ LET id == nops + 1
         b1 == [Book EXCEPT !.head = -1, !.tail = -1, !.len = 0]          \* :53-55
         b2 == Push(b1, cap, id, h)                                       \* :57
     IN  Fin([op |-> "Reset", id |-> id, h |-> h, res |-> 0], b2, 0)
  /\ nres' = nres + 1

Init ==
  /\ cap \in Caps
  /\ slots = [i \in 1..cap |-> NullNode]                                  \* NewBoundedMemoryChain :35-42
  /\ head = -1 /\ tail = -1 /\ len = 0 /\ ret = 0
  /\ nops = 0 /\ nres = 0
  /\ abs = AbsInit
  /\ act = [op |-> "Init", id |-> 0, h |-> 0, res |-> 0]
  /\ viol = {}

Next ==
  \/ \E h \in NextHeights : PushBack(h)
  \/ \E h \in ResetHeights : Reset(h)

vars == <<cap, slots, head, tail, len, ret, nops, nres, abs, act, viol>>
Spec == Init /\ [][Next]_vars

State == [cap |-> cap, slots |-> slots, head |-> head, tail |-> tail, len |-> len, ret |-> ret,
          nops |-> nops, nres |-> nres, abs |-> abs]
View  == <<cap, slots, head, tail, len, ret, nops, nres, abs>>

TypeOK ==
  /\ cap \in Caps /\ head \in -1..(cap - 1) /\ tail \in -1..(cap - 1) /\ len \in 0..cap
  /\ \A i \in 1..cap : slots[i].prev \in 0..cap /\ slots[i].anc \in 0..cap
  /\ nops \in 0..MaxOps /\ nres \in 0..MaxResets

\* The design as modelled satisfies the clauses (checked by TLC on the model; verdicts come from
\* the real structure only).
NoViolation == viol = {}
=============================================================================
