--------------------------- MODULE HeaderListProps ---------------------------
(***************************************************************************)
(* What blockManager relies on when it uses headerlist.BoundedMemoryChain  *)
(* as its in-memory header window (properties C01 / C02: "any fork depth   *)
(* inside the in-memory window"), stated over OBSERVABLES only: what       *)
(* Back(), Front(), the Prev() chain from Back() and Node.Ancestor(h)      *)
(* answer, and the pointer PushBack returns.                               *)
(*                                                                         *)
(* The reference object is the plain sequence of everything pushed since   *)
(* the last ResetHeaderState (abs.seq, records [id, h]); a chain of        *)
(* capacity K must behave like the last min(Len, K) entries of it.         *)
(*                                                                         *)
(*   act = [op, id, h, res]   op in {"Init", "PushBack", "Reset"}          *)
(*         id, h : the header (a small integer identity) and the Height    *)
(*                 put into the pushed Node                                *)
(*         res   : id of the node PushBack returned (0 for Reset / Init)   *)
(*   obs = [cap, back, backH, front, frontH, frontPrev, chain, heights,    *)
(*          anc, retBack, ptrs, slots]                                     *)
(*         back/backH, front/frontH : id and Height of Back() / Front(),   *)
(*                 NIL when the method returns nil                         *)
(*         frontPrev : id of Front().Prev(), NIL when nil                  *)
(*         chain, heights : ids / Heights met from Back() by repeated      *)
(*                 Prev(), Back() first, until nil; the walk is cut after  *)
(*                 cap+2 nodes and LOOP appended (a cycle or an over-long  *)
(*                 chain)                                                  *)
(*         anc   : anc[t+1] = id of Back().Ancestor(t) for t = 0 ..        *)
(*                 backH+1, NIL for nil, HANG if the call did not return   *)
(*                 (>= 10^6 x its normal duration), NOTOBS not observed    *)
(*         retBack : 1 iff the pointer PushBack returned is Back()         *)
(*         ptrs, slots : the structure's own bookkeeping (headPtr, tailPtr,*)
(*                 len; per slot id, Height, prev and ancestor as slot     *)
(*                 numbers) - compared for drift only, never read here.    *)
(***************************************************************************)
EXTENDS Integers, Sequences

NIL    == -1
LOOP   == -7
HANG   == -9
NOTOBS == -8

AbsInit == [seq |-> <<>>]

AbsNext(abs, act, obs2) ==
  IF act.op = "PushBack" THEN [seq |-> Append(abs.seq, [id |-> act.id, h |-> act.h])]
  ELSE IF act.op = "Reset" THEN [seq |-> <<[id |-> act.id, h |-> act.h]>>]
  ELSE abs

Min2(a, b) == IF a < b THEN a ELSE b

\* The entries a chain of capacity k retains, newest first.
Retained(seq, k) ==
  LET n == Len(seq)  m == Min2(n, k)
  IN  [i \in 1..m |-> seq[n - i + 1]]

\* What walking Prev from Back until a node of Height t is met yields.
ExpectAnc(ret, backH, t) ==
  IF t > backH \/ ~(\E i \in 1..Len(ret) : ret[i].h = t) THEN NIL
  ELSE ret[CHOOSE i \in 1..Len(ret) : ret[i].h = t /\ \A j \in 1..(i-1) : ret[j].h # t].id

Viol(abs, obs, act, abs2, obs2) ==
  LET seq == abs2.seq
      n   == Len(seq)
      ret == Retained(seq, obs2.cap)
      m   == Len(ret)
  IN
  \* Back() is the last pushed header with its height; PushBack returns that very node.
  (IF (IF n = 0 THEN obs2.back # NIL
       ELSE obs2.back # seq[n].id \/ obs2.backH # seq[n].h)
      \/ (act.op = "PushBack" /\ (act.res # act.id \/ obs2.retBack # 1))
   THEN {"BackIsLastPushed"} ELSE {})
  \cup
  \* Following Prev from Back yields the previously pushed headers, newest first, for
  \* min(count, K) - 1 steps and then ends: never a stale or wrapped-around element.
  (IF obs2.chain # [i \in 1..m |-> ret[i].id] \/ obs2.heights # [i \in 1..m |-> ret[i].h]
   THEN {"PrevChainExact"} ELSE {})
  \cup
  \* Front() is the oldest retained header and the chain ends there.
  (IF (IF n = 0 THEN obs2.front # NIL
       ELSE obs2.front # ret[m].id \/ obs2.frontH # ret[m].h \/ obs2.frontPrev # NIL)
   THEN {"FrontIsOldestRetained"} ELSE {})
  \cup
  \* After ResetHeaderState the chain holds exactly the one element given.
  (IF act.op = "Reset" /\ (obs2.chain # <<act.id>> \/ obs2.front # act.id \/ obs2.back # act.id)
   THEN {"ResetLeavesOne"} ELSE {})
  \cup
  \* Ancestor(t) answers what repeated Prev() would have answered (header_list.go: "callers always
  \* get the same result they would have obtained by repeatedly calling Prev"), nil for a height
  \* above the node's or one that is no longer retained.
  (IF \E t \in 0..(Len(obs2.anc) - 1) :
         obs2.anc[t + 1] # NOTOBS /\ obs2.anc[t + 1] # ExpectAnc(ret, obs2.backH, t)
   THEN {"AncestorIsPrevWalk"} ELSE {})

EndViol(abs, obs) == {}
=============================================================================
