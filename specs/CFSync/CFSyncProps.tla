----------------------------- MODULE CFSyncProps -----------------------------
(***************************************************************************)
(* Property C03 (committed filter headers track the header chain and       *)
(* resist false filter headers), stated over OBSERVABLES only: what the    *)
(* two header stores answer through their read API, which peers the ban    *)
(* callback was called for, and the labels of the steps (which peers       *)
(* answered a broadcast, which peer's batched response was delivered).     *)
(* The same operators are evaluated by TLC (a) on every transition of      *)
(* CFSync.tla and (b) on every step of every trace observed on the real    *)
(* blockManager code.                                                      *)
(*                                                                         *)
(* Encoding (integers only where values are compared):                     *)
(*   block id      = branch * 16 + height   (branch 0 = the initial chain, *)
(*                   branch r = the chain mined after the r-th rollback)   *)
(*   filter-header id = block id * LS + lineage mask.  Bit p-1 of the mask *)
(*                   is set iff the filter hash of peer p's lie (at p's    *)
(*                   lie height) is part of the hash chain below/at this   *)
(*                   header.  Mask 0 = the true BIP157 header of the block.*)
(*   G = a value the projection could not map (garbage / unknown).         *)
(*   obs = [B |-> block ids by height (index h+1),                         *)
(*          F |-> filter-header ids by height (index h+1),                 *)
(*          ban |-> 0/1 per peer (BanPeer callback was invoked),           *)
(*          mem |-> <<headerTip, headerTipHash, filterHeaderTip,           *)
(*                    filterHeaderTipHash>> (in-memory tips, block ids),   *)
(*          asg |-> per peer [kind, k] (behaviour chosen in Init),         *)
(*          hard |-> height of the hard-coded filter checkpoint, 0 = none, *)
(*          cpi |-> checkpoint interval in model heights]                  *)
(*   act = [op, res, rs, p, j, n, lo, hi]                                  *)
(*                                                                         *)
(* Peer kinds (asg[p].kind), k = asg[p].k the height the peer lies at:     *)
(*   "H"  honest and always answers in time                                *)
(*   "T"  truthful but may miss any broadcast (includes the silent peer)   *)
(*   "CP" false filter checkpoints from k on; cfheaders and filters true   *)
(*   "CX" false checkpoints; does not answer getcfheaders                  *)
(*   "PV" false checkpoints; cfheaders with true hashes but a different    *)
(*        PrevFilterHeader                                                 *)
(*   "OM" consistent false checkpoints + cfheaders (false filter hash at   *)
(*        k); serves a filter for k that OMITS an output script            *)
(*   "OU" the same; the omitted output script is one that does not parse   *)
(*        (BIP158 filters contain those; only OP_RETURN outputs are left   *)
(*        out)                                                             *)
(*   "OE" the same; the filter is EMPTY (N = 0, wire data 00): it omits    *)
(*        every script; the advertised hash IS that of the empty filter,   *)
(*        so only the block exposes it                                     *)
(*   "NH" same, but the filter it serves does NOT HASH to the advertised   *)
(*        value (it serves the true filter)                                *)
(*   "NS" same, but the filter for k is NOT SERVED                         *)
(*   "EX" same, but the filter has an extra element: it hashes to the      *)
(*        advertised value and contains every script (not provable)        *)
(*   "OI" same, but the filter omits the script of an output that an       *)
(*        INPUT of the block spends (all output scripts are there).  The   *)
(*        statement lists "omits an output script" only, and the block     *)
(*        alone does not prove what an input spends: not provable          *)
(*   "HC" true checkpoints, false cfheaders at k, filter omits a script    *)
(*   "FO" headers and checkpoints true; the filter for k omits a script    *)
(*   "SH" truthful, but its checkpoint list is SHORTER: only the           *)
(*        checkpoints up to height k                                       *)
(*   "SF" truthful, but its answers to the broadcast getcfheaders hold one *)
(*        filter hash too few                                              *)
(***************************************************************************)
EXTENDS Integers, Sequences, FiniteSets

NF   == -1
G    == -2
ZERO == -5      \* the all-zero hash (PrevFilterHeader of genesis)
LS   == 16      \* lineage space of a filter-header id
HS   == 8       \* variant space of a filter-hash id

Pow2(n)    == 2 ^ n
Bit(m, p)  == (m \div Pow2(p - 1)) % 2 = 1
OrBit(m, p) == IF Bit(m, p) THEN m ELSE m + Pow2(p - 1)
BlockOf(x) == x \div LS
MaskOf(x)  == x % LS

KindCF   == {"OM", "OU", "OE", "NH", "NS", "EX", "OI", "HC"}            \* false filter hash at k in cfheaders
KindCP   == {"CP", "CX", "PV", "OM", "OU", "OE", "NH", "NS", "EX", "OI"}  \* false checkpoints from k on
OmitsOut == {"OM", "OU", "OE", "HC", "FO"}   \* the filter served for height k omits an output script of the block
Provable == {"OM", "OU", "OE", "NH", "NS", "HC"}   \* the statement's list: omits a script / does not hash / not served

InSeq(x, s) == \E i \in 1..Len(s) : s[i] = x
IsPrefix(s, t) == Len(s) <= Len(t) /\ \A i \in 1..Len(s) : s[i] = t[i]

PeersOf(o) == 1..Len(o.asg)
Kd(o, p) == o.asg[p].kind
Kh(o, p) == o.asg[p].k

HonestPresent(o) == \E q \in PeersOf(o) : Kd(o, q) = "H" /\ o.ban[q] = 0

----------------------------------------------------------------------------
\* Abstract state: who served a false value in the dispute being resolved.
\*   cpresp  peers whose checkpoint lists the handler holds (last getcfcheckpt)
\*   cpsrv   of those, the ones whose list (capped at the handler's height) is false
\*   hsrv    peers that served false cfheaders in the current call
\*   ech, nev, ebad  (CFRace slice, C19) the chain a subscriber holds after the
\*           first nev delivered block events, and whether an event did not fit
\*   cpB     the block chain when those lists arrived
AbsInit == [cpresp |-> {}, cpsrv |-> {}, hsrv |-> {}, cpB |-> <<>>, ech |-> <<>>, nev |-> 0, ebad |-> 0,
            frs |-> {}, fi |-> -1, fB |-> <<>>]

\* One delivered event applied to the chain the subscriber holds (block ids =
\* heights in that slice).  Connected(b) = b+1 must extend the chain by one;
\* Disconnected(b) = -(b+1) must remove its top, or concern a block above the
\* top (a block whose filter header was never committed, hence never announced).
EvApply(st, x) ==
  LET c == st[1]
      top == c[Len(c)]
  IN  IF x > 0
      THEN IF x - 1 = top + 1 THEN <<Append(c, x - 1), st[2]>> ELSE <<c, 1>>
      ELSE LET b == (-x) - 1 IN
           IF b > top THEN st
           ELSE IF b = top /\ Len(c) > 1 THEN <<SubSeq(c, 1, Len(c) - 1), st[2]>>
           ELSE <<c, 1>>

RECURSIVE EvFold(_, _, _)
EvFold(st, evs, i) == IF i > Len(evs) THEN st ELSE EvFold(EvApply(st, evs[i]), evs, i + 1)

HasEv(o) == "ev" \in DOMAIN o

ROps == {"RStart", "RCfh", "RFlt", "RBlk"}
UOps == {"UStart", "UCfh", "UFlt", "UBlk"}

\* Did peer p answer the getcfheaders for heights lo..hi with a false message?
FalseCfh(o, p, lo, hi) ==
  \/ Kd(o, p) \in KindCF /\ Kh(o, p) <= hi
  \/ Kd(o, p) = "PV" /\ lo > 0

AbsNext(a, act, o2) ==
  CASE HasEv(o2) ->
         LET c0 == IF a.ech = <<>> THEN [x \in 1..(o2.rsc[2] + 1) |-> x - 1] ELSE a.ech
             st == EvFold(<<c0, a.ebad>>, o2.ev, a.nev + 1)
         IN  [a EXCEPT !.ech = st[1], !.nev = Len(o2.ev), !.ebad = st[2]]
    [] act.op = "GetCheckpts" ->
         [a EXCEPT !.cpresp = {p \in PeersOf(o2) : InSeq(p, act.rs)}, !.cpB = o2.B]
    [] act.op = "RStart" ->
         [a EXCEPT !.cpsrv = {p \in a.cpresp : Kd(o2, p) \in KindCP
                                 /\ Kh(o2, p) <= (act.hi \div o2.cpi) * o2.cpi},
                   !.hsrv = {}]
    [] act.op = "UStart" -> [a EXCEPT !.hsrv = {}]
    [] act.op \in {"RCfh", "UCfh"} ->
         [a EXCEPT !.hsrv = {p \in PeersOf(o2) : InSeq(p, act.rs)
                                /\ FalseCfh(o2, p, act.lo, act.hi)}]
    \* the filters of a disputed height arrived and all hash to what their
    \* senders advertised: the block is fetched next (who answered, which
    \* height, on which block chain)
    [] act.op \in {"RFlt", "UFlt"} ->
         IF act.res = "q_blk"
         THEN [a EXCEPT !.frs = {p \in PeersOf(o2) : InSeq(p, act.rs)}, !.fi = act.n, !.fB = o2.B]
         ELSE [a EXCEPT !.frs = {}, !.fi = -1, !.fB = <<>>]
    [] act.op \in {"RBlk", "UBlk", "Begin"} ->
         [a EXCEPT !.frs = {}, !.fi = -1, !.fB = <<>>]
    [] OTHER -> a

----------------------------------------------------------------------------
\* "appended only as hash-chain successors": y at height h directly follows x.
Succ(o, x, y, h) ==
  /\ x >= 0 /\ y >= 0
  /\ \A p \in PeersOf(o) : Bit(MaskOf(x), p) => Bit(MaskOf(y), p)
  /\ \A p \in PeersOf(o) : (Bit(MaskOf(y), p) /\ ~Bit(MaskOf(x), p))
                              => (Kd(o, p) \in KindCF /\ Kh(o, p) = h)
  /\ Cardinality({p \in PeersOf(o) : Bit(MaskOf(y), p) /\ ~Bit(MaskOf(x), p)}) <= 1

NewBits(o, x, y) == {p \in PeersOf(o) : y >= 0 /\ x >= 0 /\ Bit(MaskOf(y), p) /\ ~Bit(MaskOf(x), p)}

\* C19 "events are emitted in the order the chain changed" (CFRace slice): every
\* delivered event fits the chain built from the events before it, and once
\* both functions have returned that chain is the committed filter-header chain.
EventViol(a, o, a2, o2) ==
  IF ~HasEv(o2) THEN {}
  ELSE IF (a2.ebad = 1 /\ a.ebad = 0)
          \/ (o2.q = 1 /\ o.q = 0 /\ a2.ebad = 0
              /\ (\A h \in 1..Len(o2.F) : o2.F[h] >= 0)
              /\ a2.ech # [h \in 1..Len(o2.F) |-> BlockOf(o2.F[h])])
       THEN {"EventsFollowChainOrder"} ELSE {}

\* A peer whose OWN answers contradict each other - a false checkpoint, but
\* cfheaders (hashes of the filters it serves) that do not hash up to it, or a
\* PrevFilterHeader that is not its own previous checkpoint - has served a false
\* filter header that is provably inconsistent ("does not hash to the advertised
\* value").  When its cfheaders for the disputed interval arrive (RCfh), reach
\* the disputed checkpoint, an honest peer answered too and the block chain has
\* not changed since the checkpoint lists arrived, it must be banned in that step.
SelfContradiction(a, o, act, o2) ==
  IF /\ act.op = "RCfh" /\ a.cpB = o.B
     /\ \E q \in a.cpresp : Kd(o2, q) = "H" /\ o.ban[q] = 0 /\ InSeq(q, act.rs)
     /\ \E p \in a.cpsrv :
          /\ InSeq(p, act.rs) /\ o2.ban[p] = 0
          /\ Kh(o2, p) > act.lo /\ Kh(o2, p) <= act.lo + o2.cpi
          /\ \/ Kd(o2, p) = "CP" /\ act.hi >= act.lo + o2.cpi
             \/ Kd(o2, p) = "PV" /\ (act.lo > 0 \/ act.hi >= act.lo + o2.cpi)
  THEN {"SelfContradictingLiarBanned"} ELSE {}

Viol(a, o, act, a2, o2) ==
  LET F  == o.F
      F2 == o2.F
      n  == Len(F)
      m  == Len(F2)
      grew   == m > n /\ IsPrefix(F, F2)
      newban == {q \in PeersOf(o2) : o2.ban[q] = 1 /\ o.ban[q] = 0}
      srv    == IF act.op \in ROps THEN a2.cpsrv \cup a2.hsrv
                ELSE IF act.op \in UOps THEN a2.hsrv ELSE {}
      allProvable == \A p \in srv : Kd(o2, p) \in Provable
  IN
  EventViol(a, o, a2, o2) \cup SelfContradiction(a, o, act, o2) \cup
  \* the filter chain never runs ahead of the block chain
  (IF m > Len(o2.B) THEN {"NotAhead"} ELSE {})
  \* each entry belongs to the block at the same height on the current chain
  \cup (IF \E h \in 1..m : F2[h] < 0 \/ h > Len(o2.B) \/ BlockOf(F2[h]) # o2.B[h]
        THEN {"BelongsToBlock"} ELSE {})
  \* entries only change by removal from the end or by appending successors of the tip
  \cup (IF ~IsPrefix(F, F2) /\ ~IsPrefix(F2, F) THEN {"AppendOnlySuccessor"}
        ELSE IF grew /\ \E h \in (n + 1)..m : ~Succ(o2, F2[h - 1], F2[h], h - 1)
        THEN {"AppendOnlySuccessor"} ELSE {})
  \* they equal every hard-coded filter-header checkpoint
  \cup (IF o2.hard > 0 /\ m > o2.hard /\ F2[o2.hard + 1] # o2.hard * LS
        THEN {"EqualsHardcoded"} ELSE {})
  \* dispute clause (1): the value committed is the honest one
  \cup (IF grew /\ HonestPresent(o)
           /\ \E h \in (n + 1)..m : \E p \in NewBits(o2, F2[h - 1], F2[h]) : Kd(o2, p) \in Provable
        THEN {"DisputeCommitsHonest"} ELSE {})
  \* dispute clause (3): the honest peer is not banned
  \cup (IF (act.op \in ROps \cup UOps) /\ srv # {} /\ allProvable
           /\ (\A h \in 1..n : F[h] >= 0 /\ MaskOf(F[h]) = 0)   \* nothing false committed before
           /\ \E q \in newban : Kd(o2, q) = "H"
        THEN {"HonestNotBanned"} ELSE {})
  \* ... nor while the checkpoints that came out of the dispute are being fetched
  \cup (IF act.op = "CPDeliver" /\ a2.cpsrv # {} /\ (\A p \in a2.cpsrv : Kd(o2, p) \in Provable)
           /\ (\A h \in 1..n : F[h] >= 0 /\ MaskOf(F[h]) = 0)
           /\ \E q \in newban : Kd(o2, q) = "H"
        THEN {"HonestNotBannedInFetch"} ELSE {})
  \* dispute clause (2): the peers that served the false ones are banned
  \cup (IF \/ /\ act.op \in ROps /\ act.res = "good" /\ srv # {} /\ allProvable
              /\ HonestPresent(o)
              /\ \E p \in srv : o2.ban[p] = 0
           \/ /\ act.op \in UOps /\ act.res = "ok" /\ grew /\ srv # {} /\ allProvable
              /\ HonestPresent(o)
              /\ \E p \in srv : o2.ban[p] = 0
           \/ /\ act.op = "CPDeliver" /\ act.p \in PeersOf(o2)
              /\ Kd(o2, act.p) \in Provable /\ FalseCfh(o2, act.p, act.lo, act.hi)
              /\ HonestPresent(o) /\ act.res # "panic"
              /\ o2.ban[act.p] = 0
        THEN {"LiarsBanned"} ELSE {})
  \* ... and at the latest when the proof is on the table: the block of the
  \* disputed height has been delivered (act.n = 1), an unbanned honest peer
  \* and the liar both answered the getcfilters broadcast for it, the liar's
  \* filter omits an output script of that block ("provably inconsistent with
  \* the block"), the block chain has not changed since the filters arrived.
  \* Whether the round then ends well is another matter.
  \cup (IF act.op \in {"RBlk", "UBlk"} /\ act.n = 1 /\ act.res # "panic"
           /\ a.fi >= 0 /\ a.fB = o.B /\ o2.B = o.B
           /\ \E q \in a.frs : Kd(o2, q) = "H" /\ o.ban[q] = 0
           /\ \E p \in a.frs : Kd(o2, p) \in OmitsOut /\ Kh(o2, p) = a.fi
                                 /\ o.ban[p] = 0 /\ o2.ban[p] = 0
        THEN {"BlockProvenLiarBanned"} ELSE {})

EndViol(a, o) == {}

=============================================================================
