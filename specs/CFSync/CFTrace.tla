------------------------------- MODULE CFTrace -------------------------------
(***************************************************************************)
(* Trace validation, code -> specification: is every execution recorded on *)
(* the REAL, free-running blockManager.cfHandler goroutine (driver         *)
(* harness/overlay/neutrino/zz_verif_cfsync_free_test.go, virtual time) a  *)
(* behaviour of CFSync.tla?                                                *)
(*                                                                         *)
(* trace.ndjson holds many executions one after the other; a line is       *)
(*   {"i": step number, "act": ..., "obs": ...}                            *)
(* with i = 0 (plus "bt", "ft": the initial tips) for the line that starts *)
(* an execution: everything is reset to the initial state of the scenario  *)
(* the line describes.  Every other line must be ONE action of CFSync.tla  *)
(* whose label matches the logged one and after which the observable       *)
(* projection (both stores, ban calls, in-memory tips) equals the logged   *)
(* one.  The hidden variables (pc, lastH, cached lists, ctx, cpq ...) are  *)
(* the specification's own; where it has a choice the log does not resolve *)
(* (which of several agreeing lists resolveConflict returns, which         *)
(* surviving message is written at the tip: Go map order) TLC follows all  *)
(* of them.                                                                *)
(*                                                                         *)
(* What the recorder cannot see and the match therefore leaves open:       *)
(*   - field p of the R... / U... labels (the map-order choice above);     *)
(*   - whether a call of getUncheckpointedCFHeaders that changed nothing   *)
(*     returned nil or an error (the recorder infers it from the tips).    *)
(*                                                                         *)
(* Acceptance: the high-water mark of the consumed line (register 1,       *)
(* written to hw.json) is the length of the trace; otherwise the execution *)
(* containing that line is not a behaviour of the specification (reported  *)
(* as drift; the clauses of CFSyncProps are judged all the same).          *)
(***************************************************************************)
EXTENDS CFSync, IOUtils

VARIABLE l

Trace == ndJsonDeserialize("trace.ndjson")

\* the constant Scen of CFSync.tla is only used by its Init, which is not used here
TScen == {}

Reset(e) ==
  /\ sc' = [asg |-> e.obs.asg, hard |-> e.obs.hard]
  /\ bs' = [x \in 1..(e.bt + 1) |-> x - 1]
  /\ fs' = [x \in 1..(e.ft + 1) |-> (x - 1) * LS]
  /\ ban' = Flags({})
  /\ memH' = <<e.bt, e.bt>> /\ memF' = <<e.ft, e.ft>>
  /\ pc' = "top" /\ lastH' = 0 /\ lastC' = <<>> /\ allp' = Flags({}) /\ cpc' = <<>>
  /\ good' = <<>> /\ ctx' = NoCtx /\ cpq' = NoQ
  /\ nh' = 0 /\ nre' = 0 /\ nex' = 0
  /\ abs' = AbsInit
  /\ act' = Act("Init", "ok", <<>>, 0, 0, 0, 0, 0)
  /\ viol' = {}

UndecidedU == {"UStart", "UCfh", "UFlt", "UBlk"}

Match(a, r) ==
  /\ a.op = r.op /\ a.rs = r.rs /\ a.j = r.j /\ a.n = r.n /\ a.lo = r.lo /\ a.hi = r.hi
  /\ (r.op \in {"GetCheckpts", "CPDeliver"} => a.p = r.p)
  /\ \/ a.res = r.res
     \/ r.op \in UndecidedU /\ a.res \in {"ok", "err"} /\ r.res \in {"ok", "err"}

\* one initial state (that of the first execution; every line with i = 0 resets anyway)
TInit ==
  LET e == Trace[1] IN
  /\ sc = [asg |-> e.obs.asg, hard |-> e.obs.hard]
  /\ bs = [x \in 1..(e.bt + 1) |-> x - 1]
  /\ fs = [x \in 1..(e.ft + 1) |-> (x - 1) * LS]
  /\ ban = Flags({})
  /\ memH = <<e.bt, e.bt>> /\ memF = <<e.ft, e.ft>>
  /\ pc = "top" /\ lastH = 0 /\ lastC = <<>> /\ allp = Flags({}) /\ cpc = <<>>
  /\ good = <<>> /\ ctx = NoCtx /\ cpq = NoQ
  /\ nh = 0 /\ nre = 0 /\ nex = 0
  /\ abs = AbsInit
  /\ act = Act("Init", "ok", <<>>, 0, 0, 0, 0, 0)
  /\ viol = {}
  /\ l = 1 /\ TLCSet(1, 0)

\* A deviation of CFSync.tla from the code that the free-running executions found (1 of 1 568 thorough
\* executions; outside the bounds of the replayed model): getCheckpointedCFHeaders called with a list that
\* is ONE checkpoint shorter than the filter store's tip interval (resolveConflict returned the correct but
\* shorter list of an "SH" peer).  numCheckpts = len(checkpoints) - startingInterval underflows, but
\* (numCheckpts + maxCFCheckptsPerQuery - 1) wraps to 0 in uint32: no request is built and the function
\* returns.  CFSync.tla's CPStart says "panic" for every si > n; that is the code only for si > n + 1.
CPStartWrap ==
  /\ pc = "cp" /\ nh < MaxSteps
  /\ ~(FixSnapshotCheck /\ Len(good) > 0 /\ ~OnChain(lastC))
  /\ (Len(fs) - 1) \div CPI = Len(good) + 1
  /\ H(AfterCP(memF), NoCtx, ban, good, fs, memF, NoQ)
  /\ Fin(Act("CPStart", "ret", <<>>, 0, 0, 0, 0, 0))

TNext ==
  /\ l <= Len(Trace)
  /\ l' = l + 1
  /\ LET e == Trace[l]
     IN  IF e.i = 0 THEN Reset(e)
         ELSE /\ (Next \/ CPStartWrap)
              /\ Match(act', e.act)
              /\ Obs' = e.obs

HighWater == TLCSet(1, IF TLCGet(1) < l THEN l ELSE TLCGet(1))

Post == JsonSerialize("hw.json", [hw |-> TLCGet(1), n |-> Len(Trace)])
=============================================================================
