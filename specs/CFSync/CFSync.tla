------------------------------- MODULE CFSync -------------------------------
(***************************************************************************)
(* Implementation-shaped model of neutrino's filter-header sync            *)
(* (blockmanager.go: cfHandler and the functions it calls).                *)
(*                                                                         *)
(* The handler is ONE goroutine; it only waits at "gates": a broadcast     *)
(* query (queryAllPeers: getcfcheckpt / getcfheaders / getcfilters), the   *)
(* GetBlock callback, the batched dispatcher query of the checkpointed     *)
(* fetch, and the retry sleeps / condition waits of its loop.  Every       *)
(* action below runs the handler from one gate to the next; the value of   *)
(* pc names the gate it is parked at.  The block handler goroutine         *)
(* (Rollback = rollBackToHeight, Extend = a headers batch written + tip    *)
(* publication) is interleaved at every gate.                              *)
(*                                                                         *)
(* Heights are MODEL heights: the checkpoint interval is CPI (2) and one   *)
(* getcfheaders answer carries at most W = 2*CPI headers; the driver maps  *)
(* model height 2j to real height 1000j and 2j+1 to 1000j+e.               *)
(*                                                                         *)
(*  pc          parked at                         code                     *)
(*  "top"       label waitForHeaders passed       :528-559                 *)
(*  "loop"      head of the checkpoint loop       :587                     *)
(*  "retry"     the same after a failed round     (retryTimeout sleep)     *)
(*  "q_cp"      getCheckpts broadcast             :615 -> :1960            *)
(*  "resolve"   lists fetched, before the cap     :629                     *)
(*  "r_cfh"     resolveConflict, getcfheaders     :1509 -> :1877           *)
(*  "r_flt"     resolveConflict, getcfilters      :1532 -> :1635 -> :1916  *)
(*  "r_blk"     resolveConflict, GetBlock         :1670                    *)
(*  "cp"        before getCheckpointedCFHeaders   :662                     *)
(*  "cp_wait"   select on headerChan / errChan    :1126                    *)
(*  "tip"       wait for filter tip # header tip  :693-718                 *)
(*  "tipz"      the same after a failed fetch     (retryTimeout sleep)     *)
(*  "u_cfh","u_flt","u_blk"  the same three gates inside                   *)
(*              getUncheckpointedCFHeaders        :781 / :805              *)
(*  "dead"      the process panicked                                       *)
(*                                                                         *)
(* Code-version switches (the spec follows the code):                      *)
(*   FixCPNoPanic  getCheckpointedCFHeaders returns instead of panicking   *)
(*                 when a stop header is gone or writeCFHeadersMsg fails   *)
(*                 (both happen after a reorganisation during the fetch)   *)
(*   FixURecheck   getUncheckpointedCFHeaders re-examines a disputed       *)
(*                 height until the peers that are left agree on it        *)
(*                 (detectBadPeers returns after its first finding)        *)
(*   FixChainCheck before detectBadPeers both callers make sure the stop   *)
(*                 block of the cfheaders answers is still on the chain    *)
(*   FixNoQueryNoBan  resolveConflict gives up, banning nobody, when the   *)
(*                 getcfheaders request could not even be built            *)
(*   FixRollbackMemTip  rollBackToHeight lowers the in-memory filter tip   *)
(*   FixSnapshotCheck   cfHandler starts over when lastHash (or the tip    *)
(*                 the cached checkpoint lists were fetched for) is no     *)
(*                 longer on the block header chain: at the head of the    *)
(*                 checkpoint loop and before getCheckpointedCFHeaders     *)
(*   FixSelfConsistency resolveConflict bans a peer whose cfheaders do not *)
(*                 lead from / to the checkpoints the same peer served     *)
(*                 (nobody if every checked peer is inconsistent)          *)
(*   FixRefreshLists  after a failed resolveConflict the cached checkpoint *)
(*                 lists are dropped, the next attempt fetches them anew   *)
(*   FixPrevTipGuard  getUncheckpointedCFHeaders gives up, banning nobody, *)
(*                 if the filter tip changed while its getcfheaders        *)
(*                 broadcast was outstanding                               *)
(***************************************************************************)
EXTENDS Integers, Sequences, FiniteSets, TLC, Json, CFSyncProps

CONSTANTS NP,         \* number of peers
          CPI,        \* checkpoint interval (model heights)
          MaxH,       \* highest block height
          MaxSteps,   \* handler steps per history
          MaxReorgs,  \* rollbacks per history
          MaxRb,      \* deepest rollback
          RbDepths,   \* rollback depths explored (subset of 1..MaxRb)
          EnvFree,    \* TRUE: the block handler may run between any two handler steps;
                      \* FALSE: only while the handler goroutine is blocked (Parked)
          EnvLean,    \* TRUE: new headers only after a rollback or while the handler waits at the tip
          MaxExt,     \* header batches per history
          MaxExtN,    \* largest header batch
          Scen,       \* set of scenarios [asg, bt, ft, hard]
          FixCPNoPanic, FixURecheck, FixChainCheck, FixNoQueryNoBan,
          FixRollbackMemTip, FixSnapshotCheck, FixSelfConsistency, FixRefreshLists,
          FixPrevTipGuard

VARIABLES sc,      \* [asg, hard]  behaviour assignment, hard-coded checkpoint height (constant)
          bs,      \* block header store: block ids by height
          fs,      \* filter header store: filter-header ids by height
          ban,     \* 0/1 per peer: BanPeer was called
          memH,    \* <<headerTip, headerTipHash>>  (in memory)
          memF,    \* <<filterHeaderTip, filterHeaderTipHash>> (in memory)
          pc,
          lastH,   \* lastHeight of cfHandler (:564)
          lastC,   \* the chain lastHash names
          allp,    \* 0/1 per peer: has a list in allCFCheckpoints
          cpc,     \* the chain those lists were served for
          good,    \* goodCheckpoints
          ctx,     \* running resolveConflict / getUncheckpointedCFHeaders call
          cpq,     \* running getCheckpointedCFHeaders call
          nh, nre, nex,
          abs, act, viol

hvars == <<pc, ctx, ban, good, fs, memF, cpq>>
vars  == <<sc, bs, fs, ban, memH, memF, pc, lastH, lastC, allp, cpc, good, ctx, cpq,
           nh, nre, nex, abs, act, viol>>

Peers == 1..NP
W     == 2 * CPI          \* wire.MaxCFHeadersPerMsg
MQ    == W \div CPI       \* maxCFCheckptsPerQuery

Kind(p) == sc.asg[p].kind
K(p)    == sc.asg[p].k

Flags(S) == [p \in 1..NP |-> IF p \in S THEN 1 ELSE 0]
SetOf(f) == {p \in 1..NP : f[p] = 1}
BanAdd(bn, S) == [p \in 1..NP |-> IF p \in S THEN 1 ELSE bn[p]]

RECURSIVE SortedSeq(_)
SortedSeq(S) == IF S = {} THEN <<>>
                ELSE LET m == CHOOSE x \in S : \A y \in S : x <= y
                     IN  <<m>> \o SortedSeq(S \ {m})
MinOf(S) == CHOOSE x \in S : \A y \in S : x <= y

----------------------------------------------------------------------------
\* What peer p answers, for a chain c (block ids by height).
HashOf(p, c, h)  == c[h + 1] * HS + (IF Kind(p) \in KindCF /\ K(p) = h THEN p ELSE 0)
CfMask(p, h)     == IF Kind(p) \in KindCF /\ K(p) <= h THEN Pow2(p - 1) ELSE 0
HdrOf(p, c, h)   == c[h + 1] * LS + CfMask(p, h)
PrevOf(p, c, s)  == IF s = 0 THEN ZERO
                    ELSE IF Kind(p) = "PV" THEN c[s] * LS + Pow2(p - 1)
                    ELSE HdrOf(p, c, s - 1)
CkOf(p, c, i)    == LET h == (i + 1) * CPI
                    IN  c[h + 1] * LS + (IF Kind(p) \in KindCP /\ K(p) <= h THEN Pow2(p - 1) ELSE 0)
ChainMask(m0, p, lo, h) == IF Kind(p) \in KindCF /\ lo <= K(p) /\ K(p) <= h THEN OrBit(m0, p) ELSE m0

\* The filter p serves for block b at height h.
FOf(p, b, h) ==
  LET lie == K(p) = h IN
  IF lie /\ Kind(p) \in {"OM", "OU", "OE", "HC", "FO"} THEN [srv |-> TRUE,  hash |-> b * HS + p, ver |-> FALSE]
  ELSE IF lie /\ Kind(p) \in {"EX", "OI"}   THEN [srv |-> TRUE,  hash |-> b * HS + p, ver |-> TRUE]
  ELSE IF lie /\ Kind(p) = "NS"            THEN [srv |-> FALSE, hash |-> 0,          ver |-> FALSE]
  ELSE                                          [srv |-> TRUE,  hash |-> b * HS,     ver |-> TRUE]

\* The answers to a broadcast that arrive before the timeout: every unbanned
\* peer that answers this kind of query, except that "T" peers may miss it.
Must(q) == {p \in Peers : ban[p] = 0 /\ Kind(p) # "T" /\ (q = "cfh" => Kind(p) # "CX")}
May     == {p \in Peers : ban[p] = 0 /\ Kind(p) = "T"}
RSets(q) == {Must(q) \cup S : S \in SUBSET May}

----------------------------------------------------------------------------
Obs == [B |-> bs, F |-> fs, ban |-> ban,
        mem |-> <<memH[1], memH[2], memF[1], memF[2]>>,
        asg |-> sc.asg, hard |-> sc.hard, cpi |-> CPI]

Act(op, res, rs, p, j, n, lo, hi) ==
  [op |-> op, res |-> res, rs |-> rs, p |-> p, j |-> j, n |-> n, lo |-> lo, hi |-> hi]

Fin(a) ==
  /\ act'  = a
  /\ abs'  = AbsNext(abs, a, Obs')
  /\ viol' = Viol(abs, Obs, a, abs', Obs')

\* se: model height of the segment holding the stop block of the request.  A
\* request of resolveConflict that was cut at 2000 headers ends one real block
\* below the next checkpoint height, i.e. inside segment e+1.
NoCtx == [mode |-> "n", hd |-> Flags({}), cp |-> Flags({}), fl |-> Flags({}),
          qc |-> <<>>, s |-> 0, e |-> 0, se |-> 0, i |-> 0, tb |-> 0, utip |-> 0]
NoQ   == [b |-> <<>>, qc |-> <<>>, cv |-> 0, ch |-> 0, init |-> 0, ni |-> 0]

H(pcn, cn, bn, gd, fsn, mfn, qn) ==
  /\ pc' = pcn /\ ctx' = cn /\ ban' = bn /\ good' = gd /\ fs' = fsn /\ memF' = mfn /\ cpq' = qn
  /\ nh' = nh + 1
  /\ UNCHANGED <<sc, bs, memH, lastH, lastC, allp, cpc, nre, nex>>

\* BlockHeadersSynced (:2274): no sync peer, no block checkpoints; the tip must
\* be younger than 24 h, which holds for every block of the model but genesis.
Synced == Len(bs) > 1

\* cfHandler after getCheckpointedCFHeaders returned (:666-684).
AfterCP(mf) == IF ~Synced \/ mf[1] + CPI <= memH[1] THEN "top" ELSE "tip"

----------------------------------------------------------------------------
\* Checkpoint lists held by the handler.  A peer serves one checkpoint per
\* interval of the chain the request named; an "SH" peer only those up to
\* height K(p) (a correct but shorter list).  cfHandler caps every list at
\* lastH (:632-641).
MinI(a, b) == IF a < b THEN a ELSE b
RawLen(p) == IF cpc = <<>> THEN 0
             ELSE LET full == (Len(cpc) - 1) \div CPI
                  IN  IF Kind(p) = "SH" THEN MinI(K(p) \div CPI, full) ELSE full
LenOf(p)  == MinI(RawLen(p), lastH \div CPI)
MaxLen(S) == IF S = {} THEN 0 ELSE LenOf(CHOOSE p \in S : \A q \in S : LenOf(q) <= LenOf(p))
MinCP == IF SetOf(allp) = {} \/ cpc = <<>> THEN 0
         ELSE RawLen(CHOOSE p \in SetOf(allp) : \A q \in SetOf(allp) : RawLen(p) <= RawLen(q)) * CPI

\* isOnBlockHeaderChain: the tip of chain c is still in the block store.
OnChain(c) == c # <<>> /\ Len(c) <= Len(bs) /\ bs[Len(c)] = c[Len(c)]
\* the cached lists were fetched for a chain we have left (loop head)
\* ... or the round before failed and the handler dropped them (allp is only
\* cleared by the next GcSend; while pc = "retry" the code's map is nil)
StaleLists == \/ FixSnapshotCheck /\ SetOf(allp) # {} /\ ~OnChain(cpc)
              \/ FixRefreshLists /\ pc = "retry" /\ SetOf(allp) # {}
LostTip == FixSnapshotCheck /\ ~OnChain(lastC)
ListOf(p) == [i \in 1..LenOf(p) |-> CkOf(p, cpc, i - 1)]
\* one representative per distinct list: which one `for _, l := range m { return l }` yields is Go map order
Reps(S) == {MinOf({q \in S : ListOf(q) = ListOf(p)}) : p \in S}

\* checkCFCheckptSanity (:1989) for the lists of the peers in S against store f.
Sanity(S, f) ==
  LET Has(i) == {p \in S : LenOf(p) > i}
      bad == {i \in 0..(MaxLen(S) - 1) :
                \/ Cardinality({CkOf(p, cpc, i) : p \in Has(i)}) > 1
                \/ /\ (i + 1) * CPI <= Len(f) - 1
                   /\ f[(i + 1) * CPI + 1] # CkOf(CHOOSE p \in Has(i) : TRUE, cpc, i)}
  IN  IF S = {} \/ bad = {} THEN -1 ELSE MinOf(bad)

\* writeCFHeadersMsg (:1250) of heights lo..hi from peer wp's message on chain
\* qc, with PrevFilterHeader prev, onto filter store f.
WriteCFOn(f, prev, wp, lo, hi, qc) ==
  IF f[Len(f)] # prev THEN [ok |-> FALSE, fs |-> f]
  ELSE IF hi + 1 > Len(bs) \/ bs[hi + 1] # qc[hi + 1] THEN [ok |-> FALSE, fs |-> f]
  ELSE [ok |-> TRUE,
        fs |-> f \o [x \in 1..(hi - lo + 1) |->
                       qc[lo + x] * LS + ChainMask(MaskOf(prev), wp, lo, lo + x - 1)]]

----------------------------------------------------------------------------
\* The mismatch scan shared by resolveConflict (:1526) and
\* getUncheckpointedCFHeaders (:801).
Mismatch(S, c, x) == \E p, q \in S : HashOf(p, c, x) # HashOf(q, c, x)

EndR(c, bn) ==
  LET cpS == SetOf(c.cp)
      hdS == SetOf(c.hd)
      bn2 == BanAdd(bn, cpS \ hdS)          \* :1559 sent checkpoints but no headers
      cp2 == cpS \cap hdS
      d   == Sanity(cp2, fs)
  IN  IF d = -1 /\ cp2 # {}
      THEN [res |-> "good", cands |-> Reps(cp2), bn |-> bn2]
      ELSE [res |-> "err", cands |-> {}, bn |-> bn2]

\* Continue the scan of the running call from height x.  w = 1: the scan of
\* getUncheckpointedCFHeaders is over and the surviving message is written.
Outcome(c, bn, x) ==
  LET hdS == SetOf(c.hd)
      X   == {y \in x..c.e : Mismatch(hdS, c.qc, y)}
  IN  IF X # {}
      THEN LET y == MinOf(X)
               gone == FixChainCheck /\ (c.se + 1 > Len(bs) \/ bs[c.se + 1] # c.qc[c.se + 1])
           IN
           IF gone \/ y > Len(bs) - 1    \* re-org seen / detectBadPeers: FetchHeaderByHeight fails
           THEN [pc |-> IF c.mode = "r" THEN "retry" ELSE "tipz", res |-> "err",
                 c |-> NoCtx, bn |-> bn, cands |-> {}, w |-> 0]
           ELSE [pc |-> IF c.mode = "r" THEN "r_flt" ELSE "u_flt", res |-> "q_flt",
                 c |-> [c EXCEPT !.i = y, !.tb = bs[y + 1]], bn |-> bn, cands |-> {}, w |-> 0]
      ELSE IF c.mode = "r"
           THEN LET e == EndR(c, bn) IN
                [pc |-> IF e.res = "good" THEN "cp" ELSE "retry", res |-> e.res,
                 c |-> NoCtx, bn |-> e.bn, cands |-> e.cands, w |-> 0]
           ELSE [pc |-> "tip", res |-> "w", c |-> c, bn |-> bn, cands |-> {}, w |-> 1]

\* After detectBadPeers banned some peers: the scan moves on to the next
\* height; the repaired getUncheckpointedCFHeaders looks at the same height
\* again and gives up if no disagreeing peer was removed (rem = removed ones).
Cont(c, bn, rem) ==
  IF c.mode = "u" /\ FixURecheck
  THEN IF rem = {}
       THEN [pc |-> "tipz", res |-> "err", c |-> NoCtx, bn |-> bn, cands |-> {}, w |-> 0]
       ELSE Outcome(c, bn, c.i)
  ELSE Outcome(c, bn, c.i + 1)

\* Which surviving message getUncheckpointedCFHeaders writes (:829): Go map
\* order.  Only a real choice if the survivors still differ.
Picks(S, c) == IF \E x \in c.s..c.e : Mismatch(S, c.qc, x) THEN S ELSE {MinOf(S)}

Apply(op, o, rs, n, lo, hi) ==
  IF o.w = 0 /\ o.res = "good"
  THEN \E g \in o.cands :
         /\ H(o.pc, o.c, o.bn, ListOf(g), fs, memF, cpq)
         /\ Fin(Act(op, "good", rs, IF Cardinality(o.cands) > 1 THEN g ELSE 0, 0, n, lo, hi))
  ELSE IF o.w = 0
  THEN /\ H(o.pc, o.c, o.bn, <<>>, fs, memF, cpq)
       /\ Fin(Act(op, o.res, rs, 0, 0, n, lo, hi))
  ELSE LET hdS == SetOf(o.c.hd) IN
       IF hdS = {}
       THEN /\ H("tipz", NoCtx, o.bn, <<>>, fs, memF, cpq)
            /\ Fin(Act(op, "err", rs, 0, 0, n, lo, hi))
       ELSE \E pk \in Picks(hdS, o.c) :
              LET w == WriteCFOn(fs, PrevOf(pk, o.c.qc, o.c.s), pk, o.c.s, o.c.e, o.c.qc) IN
              /\ H(IF w.ok THEN "tip" ELSE "tipz", NoCtx, o.bn, <<>>, w.fs,
                   IF w.ok THEN <<o.c.e, o.c.qc[o.c.e + 1]>> ELSE memF, cpq)
              /\ Fin(Act(op, IF w.ok THEN "ok" ELSE "err", rs, pk, 0, n, lo, hi))

----------------------------------------------------------------------------
\* cfHandler :564 - the handler reads the block tip it will sync to.
BeginReady == memF[1] + CPI <= memH[1] \/ Synced        \* the wait loop :540

\* The handler goroutine is blocked: in a network wait (a gate), in a retry
\* sleep, or on the condition variable of a wait loop.  Only then does the
\* block handler get to run (unless EnvFree).
Parked == \/ pc \in {"retry", "tipz", "q_cp", "r_cfh", "r_flt", "r_blk", "cp_wait",
                     "u_cfh", "u_flt", "u_blk"}
          \/ (pc = "top" /\ ~BeginReady)
          \/ (pc = "tip" /\ memF[2] = memH[2])

Begin ==
  /\ pc = "top" /\ nh < MaxSteps
  /\ BeginReady
  /\ lastH' = Len(bs) - 1 /\ lastC' = bs
  /\ pc' = IF Len(bs) - 1 >= CPI THEN "loop" ELSE "cp"
  /\ good' = <<>> /\ nh' = nh + 1
  /\ UNCHANGED <<sc, bs, fs, ban, memH, memF, allp, cpc, ctx, cpq, nre, nex>>
  /\ Fin(Act("Begin", "ok", <<>>, 0, 0, 0, 0, Len(bs) - 1))

\* head of the checkpoint loop: the tip read at the top is gone (re-org).
LoopRestart ==
  /\ pc \in {"loop", "retry"} /\ nh < MaxSteps /\ LostTip
  /\ allp' = Flags({}) /\ cpc' = <<>> /\ pc' = "top" /\ nh' = nh + 1
  /\ UNCHANGED <<sc, bs, fs, ban, memH, memF, lastH, lastC, good, ctx, cpq, nre, nex>>
  /\ Fin(Act("LoopRestart", "ok", <<>>, 0, 0, 0, 0, lastH))

\* :597-615 the getcfcheckpt broadcast is sent ...
GcSend ==
  /\ pc \in {"loop", "retry"} /\ nh < MaxSteps /\ ~LostTip
  /\ (StaleLists \/ MinCP < lastH)
  /\ allp' = IF StaleLists THEN Flags({}) ELSE allp
  /\ cpc' = IF StaleLists THEN <<>> ELSE cpc
  /\ pc' = "q_cp" /\ nh' = nh + 1
  /\ UNCHANGED <<sc, bs, fs, ban, memH, memF, lastH, lastC, good, ctx, cpq, nre, nex>>
  /\ Fin(Act("GcSend", "q_cp", <<>>, 0, 0, 0, 0, lastH))

\* ... and answered (:1960); the handler then makes sure the tip it asked for is
\* still on the chain (re-org while waiting for the answers).
\* sp # 0: the answer of honest peer sp (the lowest-numbered one, honest peers
\* are interchangeable) is preceded by a cfcheckpt message of that peer that
\* belongs to an older request (other stop hash); the callback ignores it.
GcRecv(rsS, sp) ==
  /\ pc = "q_cp" /\ nh < MaxSteps
  /\ rsS \in RSets("cp")
  /\ (sp = 0 \/ (sp \in rsS /\ Kind(sp) = "H" /\ \A q \in rsS : Kind(q) = "H" => sp <= q))
  /\ nh' = nh + 1
  /\ UNCHANGED <<sc, bs, fs, ban, memH, memF, lastH, lastC, good, ctx, cpq, nre, nex>>
  /\ IF LostTip
     THEN /\ allp' = Flags({}) /\ cpc' = <<>> /\ pc' = "top"
          /\ Fin(Act("GetCheckpts", "restart", SortedSeq(rsS), sp, 0, 0, 0, lastH))
     ELSE /\ allp' = Flags(rsS) /\ cpc' = IF rsS = {} THEN <<>> ELSE lastC
          /\ pc' = IF rsS = {} THEN "retry" ELSE "resolve"     \* :616 none: sleep, continue
          /\ Fin(Act("GetCheckpts", IF rsS = {} THEN "none" ELSE "ok", SortedSeq(rsS), sp, 0, 0, 0, lastH))

\* :629-658 cap, then resolveConflict up to its first gate (same loop
\* iteration as the fetch, or directly if the cached lists reach lastHeight).
RStart ==
  /\ (pc = "resolve" \/ (pc \in {"loop", "retry"} /\ ~LostTip /\ ~StaleLists /\ MinCP >= lastH))
  /\ nh < MaxSteps
  /\ LET cp0 == {p \in SetOf(allp) : LenOf(p) >= 1}
         hb  == {p \in cp0 : sc.hard > 0 /\ sc.hard <= LenOf(p) * CPI
                              /\ CkOf(p, cpc, (sc.hard \div CPI) - 1) # sc.hard * LS}
         bn1 == BanAdd(ban, hb)
         cp1 == cp0 \ hb
         d   == Sanity(cp1, fs)
         cp2 == {p \in cp1 : LenOf(p) >= d}        \* :1495 lists that end before the mismatch
         bt  == Len(bs) - 1
     IN
     IF cp1 = {}
     THEN /\ H("retry", NoCtx, bn1, <<>>, fs, memF, cpq)
          /\ Fin(Act("RStart", "err", <<>>, 0, 0, 0, 0, lastH))
     ELSE IF d = -1
     THEN \E g \in Reps(cp1) :
          /\ H("cp", NoCtx, bn1, ListOf(g), fs, memF, cpq)
          /\ Fin(Act("RStart", "good", <<>>, IF Cardinality(Reps(cp1)) > 1 THEN g ELSE 0, 0, 0, 0, lastH))
     ELSE IF cp2 = {}
     THEN /\ H("retry", NoCtx, bn1, <<>>, fs, memF, cpq)
          /\ Fin(Act("RStart", "err", <<>>, 0, 0, 0, 0, lastH))
     ELSE IF d * CPI > bt
     THEN \* getCFHeadersForAllPeers: stopHeight-height underflows, no query is sent
          LET e == IF FixNoQueryNoBan THEN [res |-> "err", cands |-> {}, bn |-> bn1]
                   ELSE EndR([NoCtx EXCEPT !.mode = "r", !.cp = Flags(cp2)], bn1) IN
          IF e.res = "good"
          THEN \E g \in e.cands :
               /\ H("cp", NoCtx, e.bn, ListOf(g), fs, memF, cpq)
               /\ Fin(Act("RStart", "good", <<>>, IF Cardinality(e.cands) > 1 THEN g ELSE 0, 0, 0, 0, lastH))
          ELSE /\ H("retry", NoCtx, e.bn, <<>>, fs, memF, cpq)
               /\ Fin(Act("RStart", "err", <<>>, 0, 0, 0, 0, lastH))
     ELSE LET s  == d * CPI
              e  == IF bt - s >= W THEN s + W - 1 ELSE bt
              se == IF bt - s >= W THEN e + 1 ELSE e
          IN
          /\ H("r_cfh", [NoCtx EXCEPT !.mode = "r", !.cp = Flags(cp2),
                                      !.qc = SubSeq(bs, 1, se + 1), !.s = s, !.e = e, !.se = se],
               bn1, <<>>, fs, memF, cpq)
          /\ Fin(Act("RStart", "q_cfh", <<>>, 0, 0, 0, s, lastH))

\* cfHeadersMatchCheckpoints: p's cfheaders for s..e on chain qc lead from the
\* checkpoint below index d to the checkpoint at d, as p itself served them.
SelfOK(p, d, qc, s, e) ==
  LET m0   == IF s = 0 THEN 0 ELSE IF PrevOf(p, qc, s) >= 0 THEN MaskOf(PrevOf(p, qc, s)) ELSE 0
      ms   == ChainMask(m0, p, s, s)
      hs   == qc[s + 1] * LS + ms
      prev == IF d = 0 THEN 0 ELSE CkOf(p, cpc, d - 1)
  IN  /\ hs = prev
      /\ (d >= LenOf(p) \/ e - s + 1 <= CPI
          \/ qc[s + CPI + 1] * LS + ChainMask(ms, p, s + 1, s + CPI) = CkOf(p, cpc, d))

\* the getcfheaders broadcast of resolveConflict is answered.
RCfh(rsS) ==
  /\ pc = "r_cfh" /\ nh < MaxSteps
  /\ rsS \in RSets("cfh")
  /\ LET d   == ctx.s \div CPI
         acc == {p \in rsS : Kind(p) # "SF"}       \* :1884 answers of the wrong length are ignored
         chk == acc \cap SetOf(ctx.cp)
         inc == IF FixSelfConsistency THEN {p \in chk : ~SelfOK(p, d, ctx.qc, ctx.s, ctx.e)} ELSE {}
         allInc == chk # {} /\ inc = chk       \* nobody is consistent: chains differ, nobody banned
         bn1 == BanAdd(ban, inc)
         hd  == acc \ inc
         c0  == [ctx EXCEPT !.hd = Flags(hd), !.cp = Flags(SetOf(ctx.cp) \ inc)]
         prevs == {PrevOf(p, ctx.qc, ctx.s) : p \in hd}
     IN  IF allInc
         THEN /\ H("retry", NoCtx, ban, <<>>, fs, memF, cpq)
              /\ Fin(Act("RCfh", "err", SortedSeq(rsS), 0, 0, 0, ctx.s, ctx.e))
         ELSE IF Cardinality(prevs) > 1
         THEN /\ H("retry", NoCtx, bn1, <<>>, fs, memF, cpq)
              /\ Fin(Act("RCfh", "err", SortedSeq(rsS), 0, 0, 0, ctx.s, ctx.e))
         ELSE Apply("RCfh", Outcome(c0, bn1, ctx.s), SortedSeq(rsS), 0, ctx.s, ctx.e)

\* detectBadPeers after the getcfilters broadcast (:1639-1666).
Flt(op, rsS) ==
  LET hdS == SetOf(ctx.hd)
      fl  == {p \in rsS : FOf(p, ctx.tb, ctx.i).srv}
      bad == {p \in hdS : p \notin fl \/ FOf(p, ctx.tb, ctx.i).hash # HashOf(p, ctx.qc, ctx.i)}
  IN  IF bad # {}
      THEN Apply(op, Cont([ctx EXCEPT !.hd = Flags(hdS \ bad),
                                      !.cp = Flags(SetOf(ctx.cp) \ bad)],
                          BanAdd(ban, bad), hdS \cap bad),
                 SortedSeq(rsS), ctx.i, ctx.s, ctx.e)
      ELSE /\ H(IF ctx.mode = "r" THEN "r_blk" ELSE "u_blk", [ctx EXCEPT !.fl = Flags(fl)],
                ban, <<>>, fs, memF, cpq)
           /\ Fin(Act(op, "q_blk", SortedSeq(rsS), 0, 0, ctx.i, ctx.s, ctx.e))

\* GetBlock answered, resolveFilterMismatchFromBlock (:1704).
Blk(op, ok) ==
  LET fl  == SetOf(ctx.fl)
      thr == (Cardinality(fl) + 2) \div 2
      F(p) == FOf(p, ctx.tb, ctx.i)
      bad1 == {p \in fl : ~F(p).ver}
      cnt(p) == Cardinality({q \in fl : F(q).hash = F(p).hash})
      best == IF fl = {} THEN 0 ELSE cnt(CHOOSE p \in fl : \A q \in fl : cnt(q) <= cnt(p))
      bad  == IF bad1 # {} THEN bad1 ELSE {p \in fl : cnt(p) < best}
      fail == ok = 0 \/ (bad1 = {} /\ best < thr)
  IN  IF fail
      THEN /\ H(IF ctx.mode = "r" THEN "retry" ELSE "tipz", NoCtx, ban, <<>>, fs, memF, cpq)
           /\ Fin(Act(op, "err", <<>>, 0, 0, ok, ctx.s, ctx.e))
      ELSE Apply(op, Cont([ctx EXCEPT !.hd = Flags(SetOf(ctx.hd) \ bad),
                                      !.cp = Flags(SetOf(ctx.cp) \ bad)],
                          BanAdd(ban, bad), SetOf(ctx.hd) \cap bad),
                 <<>>, ok, ctx.s, ctx.e)

RFlt(rsS) == pc = "r_flt" /\ nh < MaxSteps /\ rsS \in RSets("flt") /\ Flt("RFlt", rsS)
RBlk(ok)  == pc = "r_blk" /\ nh < MaxSteps /\ Blk("RBlk", ok)
UFlt(rsS) == pc = "u_flt" /\ nh < MaxSteps /\ rsS \in RSets("flt") /\ Flt("UFlt", rsS)
UBlk(ok)  == pc = "u_blk" /\ nh < MaxSteps /\ Blk("UBlk", ok)

----------------------------------------------------------------------------
\* getCheckpointedCFHeaders (:973) up to the dispatcher query.
CPFail(op, rs, p, j, lo, hi) ==
  IF FixCPNoPanic
  THEN /\ H(AfterCP(memF'), NoCtx, ban, good, fs', memF', NoQ)
       /\ Fin(Act(op, "ret", rs, p, j, 0, lo, hi))
  ELSE /\ H("dead", NoCtx, ban, good, fs', memF', NoQ)
       /\ Fin(Act(op, "panic", rs, p, j, 0, lo, hi))

CPStart ==
  /\ pc = "cp" /\ nh < MaxSteps
  /\ LET cv == fs[Len(fs)]
         ch == Len(fs) - 1
         si == ch \div CPI
         n  == Len(good)
         bt == Len(bs) - 1
         cis == {ci \in si..(n - 1) : (ci - si) % MQ = 0}
         mk(ci) == LET nx == IF ci + MQ > n THEN n ELSE ci + MQ
                   IN  [ci |-> ci, lo |-> ci * CPI + 1, hi |-> nx * CPI, fin |-> 0, st |-> 0]
         order == SortedSeq(cis)
     IN
     IF FixSnapshotCheck /\ n > 0 /\ ~OnChain(lastC)
     THEN \* the tip the checkpoints were resolved for is gone: start over
          /\ pc' = "top" /\ allp' = Flags({}) /\ cpc' = <<>> /\ good' = <<>> /\ nh' = nh + 1
          /\ UNCHANGED <<sc, bs, fs, ban, memH, memF, lastH, lastC, ctx, cpq, nre, nex>>
          /\ Fin(Act("CPStart", "restart", <<>>, 0, 0, 0, 0, 0))
     ELSE IF si > n
     THEN \* numCheckpts underflows: make() panics
          /\ H("dead", NoCtx, ban, good, fs, memF, NoQ)
          /\ Fin(Act("CPStart", "panic", <<>>, 0, 0, 0, 0, 0))
     ELSE IF \E ci \in cis : mk(ci).hi > bt
     THEN \* :1039 FetchHeaderByHeight fails
          /\ fs' = fs /\ memF' = memF
          /\ CPFail("CPStart", <<>>, 0, 0, 0, 0)
     ELSE IF cis = {}
     THEN /\ H(AfterCP(memF), NoCtx, ban, good, fs, memF, NoQ)
          /\ Fin(Act("CPStart", "ret", <<>>, 0, 0, 0, 0, 0))
     ELSE /\ H("cp_wait", NoCtx, ban, good, fs, memF,
               [b |-> [x \in 1..Len(order) |-> mk(order[x])], qc |-> bs,
                cv |-> cv, ch |-> ch, init |-> cv, ni |-> si])
          /\ Fin(Act("CPStart", "wait", <<>>, 0, 0, Len(order), 0, 0))

\* The in-order write loop (:1182-1232).  rlo = start height of the message
\* just received (the code computes the first-interval offset from it).
RECURSIVE Drain(_, _, _)
Drain(q, f, rlo) ==
  LET js == {j \in 1..Len(q.b) : q.b[j].ci = q.ni /\ q.b[j].st # 0} IN
  IF js = {} THEN [q |-> q, fs |-> f, st |-> "ok"]
  ELSE LET j     == CHOOSE x \in js : TRUE
           bj    == q.b[j]
           wp    == bj.st
           first == q.cv = q.init
           off   == IF first THEN q.ch + 1 - rlo ELSE 0
           prev  == IF first THEN q.cv ELSE PrevOf(wp, q.qc, bj.lo)
           w     == WriteCFOn(f, prev, wp, bj.lo + off, bj.hi, q.qc)
           q1    == [q EXCEPT !.b[j].st = 0]
       IN  IF ~w.ok THEN [q |-> q1, fs |-> f, st |-> "fail"]
           ELSE Drain([q1 EXCEPT !.cv = w.fs[Len(w.fs)], !.ch = bj.hi, !.ni = bj.hi \div CPI],
                      w.fs, rlo)

\* The dispatcher hands peer p's answer to request j to handleResponse (:874);
\* if it is accepted the consumer loop runs until it waits again.
CPDeliver(j, p) ==
  /\ pc = "cp_wait" /\ nh < MaxSteps
  /\ j \in 1..Len(cpq.b) /\ cpq.b[j].fin = 0
  /\ p \in Peers /\ ban[p] = 0 /\ Kind(p) # "CX"
  /\ LET bj     == cpq.b[j]
         n      == Len(good)
         prevCP == IF bj.ci = 0 THEN 0 ELSE good[bj.ci]
         nidx   == IF bj.ci + MQ - 1 >= n THEN n - 1 ELSE bj.ci + MQ - 1
         nextCP == good[nidx + 1]
         rprev  == PrevOf(p, cpq.qc, bj.lo)
         lastHd == cpq.qc[bj.hi + 1] * LS
                   + ChainMask(IF rprev >= 0 THEN MaskOf(rprev) ELSE 0, p, bj.lo, bj.hi)
         okv    == rprev = prevCP /\ lastHd = nextCP
     IN
     IF ~okv
     THEN /\ H("cp_wait", NoCtx, BanAdd(ban, {p}), good, fs, memF, cpq)
          /\ Fin(Act("CPDeliver", "rej", <<>>, p, bj.ci, 0, bj.lo, bj.hi))
     ELSE IF bj.hi <= cpq.ch
     THEN /\ H("cp_wait", NoCtx, ban, good, fs, memF, [cpq EXCEPT !.b[j].fin = 1])
          /\ Fin(Act("CPDeliver", "acc", <<>>, p, bj.ci, 0, bj.lo, bj.hi))
     ELSE LET d == Drain([cpq EXCEPT !.b[j].fin = 1, !.b[j].st = p], fs, bj.lo)
              mf == IF d.fs # fs THEN <<Len(d.fs) - 1, bs[Len(d.fs)]>> ELSE memF
          IN
          IF d.st = "fail"
          THEN /\ fs' = d.fs /\ memF' = mf
               /\ CPFail("CPDeliver", <<>>, p, bj.ci, bj.lo, bj.hi)
          ELSE IF d.q.ni >= n
          THEN /\ H(AfterCP(mf), NoCtx, ban, good, d.fs, mf, NoQ)
               /\ Fin(Act("CPDeliver", "done", <<>>, p, bj.ci, 0, bj.lo, bj.hi))
          ELSE /\ H("cp_wait", NoCtx, ban, good, d.fs, mf, d.q)
               /\ Fin(Act("CPDeliver", "acc", <<>>, p, bj.ci, 0, bj.lo, bj.hi))

\* The dispatcher reports failure of the batch (time-out, no progress): :1130.
CPEnd ==
  /\ pc = "cp_wait" /\ nh < MaxSteps
  /\ H(AfterCP(memF), NoCtx, ban, good, fs, memF, NoQ)
  /\ Fin(Act("CPEnd", "ret", <<>>, 0, 0, 0, 0, 0))

----------------------------------------------------------------------------
\* getUncheckpointedCFHeaders (:747) up to its first gate.
UStart ==
  /\ pc \in {"tip", "tipz"} /\ nh < MaxSteps /\ memF[2] # memH[2]
  /\ LET f  == Len(fs) - 1
         bt == Len(bs) - 1
         s  == f + 1
         e  == IF bt - s >= W THEN s + W - 1 ELSE bt
     IN
     IF bt < f
     THEN /\ H("tipz", NoCtx, ban, good, fs, memF, cpq)
          /\ Fin(Act("UStart", "err", <<>>, 0, 0, 0, 0, 0))
     ELSE IF bt = f
     THEN /\ H("tip", NoCtx, ban, good, fs, memF, cpq)
          /\ Fin(Act("UStart", "ok", <<>>, 0, 0, 0, 0, 0))
     ELSE /\ H("u_cfh", [NoCtx EXCEPT !.mode = "u", !.qc = SubSeq(bs, 1, e + 1),
                                      !.s = s, !.e = e, !.se = e, !.utip = fs[Len(fs)]],
               ban, good, fs, memF, cpq)
          /\ Fin(Act("UStart", "q_cfh", <<>>, 0, 0, 0, s, e))

UCfh(rsS) ==
  /\ pc = "u_cfh" /\ nh < MaxSteps
  /\ rsS \in RSets("cfh")
  /\ LET acc == {p \in rsS : Kind(p) # "SF"}       \* :1884 answers of the wrong length are ignored
         pb  == {p \in acc : PrevOf(p, ctx.qc, ctx.s) # ctx.utip}      \* :784
         bn1 == BanAdd(ban, pb)
         hd  == acc \ pb
     IN  IF FixPrevTipGuard /\ fs[Len(fs)] # ctx.utip
         THEN /\ H("tipz", NoCtx, ban, good, fs, memF, cpq)
              /\ Fin(Act("UCfh", "err", SortedSeq(rsS), 0, 0, 0, ctx.s, ctx.e))
         ELSE IF hd = {}
         THEN /\ H("tipz", NoCtx, bn1, good, fs, memF, cpq)
              /\ Fin(Act("UCfh", "err", SortedSeq(rsS), 0, 0, 0, ctx.s, ctx.e))
         ELSE Apply("UCfh", Outcome([ctx EXCEPT !.hd = Flags(hd)], bn1, ctx.s),
                    SortedSeq(rsS), 0, ctx.s, ctx.e)

----------------------------------------------------------------------------
\* The block handler goroutine.
Rollback(h) ==
  /\ pc # "dead" /\ nh < MaxSteps /\ nre < MaxReorgs
  /\ h >= 0 /\ h < Len(bs) - 1 /\ Len(bs) - 1 - h <= MaxRb /\ h >= sc.hard
  /\ (Len(bs) - 1 - h) \in RbDepths
  /\ (EnvFree \/ Parked)
  /\ bs' = SubSeq(bs, 1, h + 1)
  /\ fs' = IF Len(fs) > h + 1 THEN SubSeq(fs, 1, h + 1) ELSE fs
  /\ memF' = IF FixRollbackMemTip /\ Len(fs) > h + 1 THEN <<h, bs[h + 1]>> ELSE memF
  /\ nre' = nre + 1
  /\ UNCHANGED <<sc, ban, memH, pc, lastH, lastC, allp, cpc, good, ctx, cpq, nh, nex>>
  /\ Fin(Act("Rollback", "ok", <<>>, 0, 0, h, 0, 0))

Extend(n) ==
  /\ pc # "dead" /\ nh < MaxSteps /\ nex < MaxExt
  /\ n >= 1 /\ n <= MaxExtN /\ Len(bs) - 1 + n <= MaxH
  /\ (EnvFree \/ Parked)
  /\ (~EnvLean \/ nre >= 1 \/ pc \in {"tip", "tipz"})
  /\ LET bt == Len(bs) - 1 IN
     /\ bs' = bs \o [x \in 1..n |-> nre * 16 + bt + x]
     /\ memH' = <<bt + n, nre * 16 + bt + n>>
  /\ nex' = nex + 1
  /\ UNCHANGED <<sc, fs, ban, memF, pc, lastH, lastC, allp, cpc, good, ctx, cpq, nh, nre>>
  /\ Fin(Act("Extend", "ok", <<>>, 0, 0, n, 0, 0))

----------------------------------------------------------------------------
Init ==
  \E s \in Scen :
    /\ sc = [asg |-> s.asg, hard |-> s.hard]
    /\ bs = [x \in 1..(s.bt + 1) |-> x - 1]
    /\ fs = [x \in 1..(s.ft + 1) |-> (x - 1) * LS]
    /\ ban = Flags({})
    /\ memH = <<s.bt, s.bt>> /\ memF = <<s.ft, s.ft>>
    /\ pc = "top" /\ lastH = 0 /\ lastC = <<>> /\ allp = Flags({}) /\ cpc = <<>>
    /\ good = <<>> /\ ctx = NoCtx /\ cpq = NoQ
    /\ nh = 0 /\ nre = 0 /\ nex = 0
    /\ abs = AbsInit
    /\ act = Act("Init", "ok", <<>>, 0, 0, 0, 0, 0)
    /\ viol = {}

Next ==
  \/ Begin
  \/ LoopRestart
  \/ GcSend
  \/ \E S \in SUBSET Peers : \E sp \in 0..NP : GcRecv(S, sp)
  \/ RStart
  \/ \E S \in SUBSET Peers : RCfh(S)
  \/ \E S \in SUBSET Peers : RFlt(S)
  \/ \E ok \in {0, 1} : RBlk(ok)
  \/ CPStart
  \/ \E j \in 1..(MaxH \div CPI + 1) : \E p \in Peers : CPDeliver(j, p)
  \/ CPEnd
  \/ UStart
  \/ \E S \in SUBSET Peers : UCfh(S)
  \/ \E S \in SUBSET Peers : UFlt(S)
  \/ \E ok \in {0, 1} : UBlk(ok)
  \/ \E h \in 0..MaxH : Rollback(h)
  \/ \E n \in 1..MaxExtN : Extend(n)

Spec == Init /\ [][Next]_vars

----------------------------------------------------------------------------
TypeOK ==
  /\ pc \in {"top", "loop", "retry", "tipz", "q_cp", "resolve", "r_cfh", "r_flt", "r_blk", "cp", "cp_wait", "tip",
             "u_cfh", "u_flt", "u_blk", "dead"}
  /\ Len(bs) >= 1 /\ Len(bs) <= MaxH + 1
  /\ Len(fs) >= 1
  /\ \A p \in Peers : ban[p] \in {0, 1}
  /\ nh \in 0..MaxSteps /\ nre \in 0..MaxReorgs /\ nex \in 0..MaxExt

\* design-level statement of C03 on the model
NoViolation == viol = {}

AbsJ == [cpresp |-> SortedSeq(abs.cpresp), cpsrv |-> SortedSeq(abs.cpsrv),
         hsrv |-> SortedSeq(abs.hsrv), cpB |-> abs.cpB]

State == [sc |-> sc, bs |-> bs, fs |-> fs, ban |-> ban, memH |-> memH, memF |-> memF,
          pc |-> pc, lastH |-> lastH, lastC |-> lastC, allp |-> allp, cpc |-> cpc,
          good |-> good, ctx |-> ctx, cpq |-> cpq, nh |-> nh, nre |-> nre, nex |-> nex,
          abs |-> AbsJ]
View == <<sc, bs, fs, ban, memH, memF, pc, lastH, lastC, allp, cpc, good, ctx, cpq,
          nh, nre, nex, abs>>
=============================================================================
