------------------------------- MODULE CFRace -------------------------------
(***************************************************************************)
(* Second, small model of the CFSync family: the two functions of          *)
(* blockmanager.go that change the filter-header store, each run by its    *)
(* own goroutine, at STORE-CALL granularity:                               *)
(*                                                                         *)
(*   R  rollBackToHeight(h)        (block handler goroutine)               *)
(*   W  writeCFHeadersMsg(msg)     (cfHandler goroutine)                   *)
(*                                                                         *)
(* A process is parked in front of a store call (its pc names the call), on*)
(* the mutex, or is done.  Step(X) lets X execute the call it is parked at *)
(* and run on to its next store call.  CFSync.tla treats both functions as *)
(* atomic; this model is what justifies that, and what notices when it     *)
(* stops being true.                                                       *)
(*                                                                         *)
(*   R:  Lock; BlockHeaders.ChainTip; RegFilterHeaders.ChainTip;           *)
(*       while tip > h: BlockHeaders.FetchHeader(tip);                     *)
(*          [tip <= regHeight: RegFilterHeaders.RollbackLastBlock(prev)];  *)
(*          BlockHeaders.RollbackLastBlock; BlockHeaders.FetchHeader(prev) *)
(*       Unlock                                                            *)
(*   W:  Lock; store.ChainTip (prev-header check);                         *)
(*       BlockHeaders.FetchHeaderAncestors(stop); store.WriteHeaders;      *)
(*       Unlock                                                            *)
(*                                                                         *)
(* Mutex = TRUE is the code as it is (filterHeaderStoreMtx held by both    *)
(* functions from their first statement, b56652a): every interleaving      *)
(* collapses to the two serial orders plus blocked attempts.  Mutex =      *)
(* FALSE (no lock) is explored too: TLC shows on the model which           *)
(* interleavings break C03, and its behaviours are replayed against the    *)
(* real code as SCHEDULES (which goroutine is released next) - on the real *)
(* code a goroutine the schedule wants to release may sit on the mutex,    *)
(* then the command is skipped.                                            *)
(*                                                                         *)
(* One chain, block id = height, filter-header id = height * LS (true).    *)
(* The filter store is its flat file plus its tip key (a block hash whose  *)
(* height comes from the block index), as in headerfs.                     *)
(***************************************************************************)
EXTENDS Integers, Sequences, FiniteSets, TLC, Json, CFSyncProps

CONSTANTS Mutex,     \* filterHeaderStoreMtx taken by both functions
          RScen      \* set of scenarios [bt, ft, e, h]: block tip, filter tip,
                     \* last height of the cfheaders message, rollback target

VARIABLES sc,
          bs,        \* block store (ids by height); also the hash->height index
          ff,        \* filter header file
          ftk,       \* filter tip key (block id)
          mu,        \* "" | "R" | "W"   holder of the mutex
          rp, wp,    \* pcs
          rv,        \* R's locals [th, tb, reg]
          abs, act, viol

vars == <<sc, bs, ff, ftk, mu, rp, wp, rv, abs, act, viol>>

InIdx(b)  == \E i \in 1..Len(bs) : bs[i] = b
HeightOf(b) == (CHOOSE i \in 1..Len(bs) : bs[i] = b) - 1

\* filter store ChainTip: height from the index, header from the file
FTipOK == InIdx(ftk) /\ HeightOf(ftk) + 1 <= Len(ff)

FObs == IF FTipOK /\ HeightOf(ftk) + 1 = Len(ff) THEN ff ELSE ff \o <<G>>

Obs == [B |-> bs, F |-> FObs, ban |-> <<>>, mem |-> <<0, 0, 0, 0>>,
        asg |-> <<>>, hard |-> 0, cpi |-> 2, rsc |-> <<sc.bt, sc.ft, sc.e, sc.h>>]

Act(op, res) == [op |-> op, res |-> res, rs |-> <<>>, p |-> 0, j |-> 0, n |-> 0, lo |-> 0, hi |-> 0]

Fin(a) ==
  /\ act'  = a
  /\ abs'  = AbsNext(abs, a, Obs')
  /\ viol' = Viol(abs, Obs, a, abs', Obs')

----------------------------------------------------------------------------
\* What a process does when it returns: release the mutex; a process parked
\* on it takes it and runs to its first store call.
RFirst == "g_btip"
WFirst == "g_tip"

\* R returns (res) - new values of <<mu, rp, wp>>
RDone(res) ==
  /\ rp' = res
  /\ IF Mutex /\ wp = "blk" THEN mu' = "W" /\ wp' = WFirst
     ELSE mu' = (IF Mutex THEN "" ELSE mu) /\ wp' = wp
WDone(res) ==
  /\ wp' = res
  /\ IF Mutex /\ rp = "blk" THEN mu' = "R" /\ rp' = RFirst
     ELSE mu' = (IF Mutex THEN "" ELSE mu) /\ rp' = rp

Finished(p) == p \in {"ok", "err"}

----------------------------------------------------------------------------
StepR ==
  /\ ~Finished(rp) /\ rp # "blk"
  /\ sc' = sc
  /\ CASE rp = "init" ->
            /\ UNCHANGED <<bs, ff, ftk, rv, wp>>
            /\ IF Mutex /\ mu # "" THEN rp' = "blk" /\ mu' = mu
               ELSE rp' = RFirst /\ mu' = (IF Mutex THEN "R" ELSE mu)
            /\ Fin(Act("StepR", rp'))
       [] rp = "g_btip" ->
            /\ rv' = [rv EXCEPT !.th = Len(bs) - 1, !.tb = bs[Len(bs)]]
            /\ rp' = "g_ftip"
            /\ UNCHANGED <<bs, ff, ftk, mu, wp>>
            /\ Fin(Act("StepR", "g_ftip"))
       [] rp = "g_ftip" ->
            /\ UNCHANGED <<bs, ff, ftk>>
            /\ IF ~FTipOK
               THEN /\ rv' = rv /\ RDone("err") /\ Fin(Act("StepR", "err"))
               ELSE /\ rv' = [rv EXCEPT !.reg = HeightOf(ftk)]
                    /\ IF rv.th > sc.h
                       THEN rp' = "g_fetch" /\ UNCHANGED <<mu, wp>> /\ Fin(Act("StepR", "g_fetch"))
                       ELSE RDone("ok") /\ Fin(Act("StepR", "ok"))
       [] rp = "g_fetch" ->
            /\ UNCHANGED <<bs, ff, ftk, rv>>
            /\ IF ~InIdx(rv.tb)
               THEN RDone("err") /\ Fin(Act("StepR", "err"))
               ELSE LET nx == IF rv.th <= rv.reg THEN "g_frb" ELSE "g_brb" IN
                    rp' = nx /\ UNCHANGED <<mu, wp>> /\ Fin(Act("StepR", nx))
       [] rp = "g_frb" ->
            \* filterHeaderStore.RollbackLastBlock(newTip = parent of tb)
            /\ bs' = bs
            /\ IF ~InIdx(ftk) \/ HeightOf(ftk) = 0 \/ HeightOf(ftk) > Len(ff)
               THEN /\ UNCHANGED <<ff, ftk, rv>> /\ RDone("err") /\ Fin(Act("StepR", "err"))
               ELSE /\ ff' = SubSeq(ff, 1, Len(ff) - 1)
                    /\ ftk' = rv.tb - 1
                    /\ rv' = [rv EXCEPT !.reg = HeightOf(ftk) - 1]
                    /\ rp' = "g_brb" /\ UNCHANGED <<mu, wp>>
                    /\ Fin(Act("StepR", "g_brb"))
       [] rp = "g_brb" ->
            /\ UNCHANGED <<ff, ftk>>
            /\ IF Len(bs) <= 1
               THEN /\ UNCHANGED <<bs, rv>> /\ RDone("err") /\ Fin(Act("StepR", "err"))
               ELSE /\ bs' = SubSeq(bs, 1, Len(bs) - 1)
                    /\ rv' = [rv EXCEPT !.th = Len(bs) - 2, !.tb = bs[Len(bs) - 1]]
                    /\ rp' = "g_fetch2" /\ UNCHANGED <<mu, wp>>
                    /\ Fin(Act("StepR", "g_fetch2"))
       [] rp = "g_fetch2" ->
            /\ UNCHANGED <<bs, ff, ftk, rv>>
            /\ IF rv.th > sc.h
               THEN rp' = "g_fetch" /\ UNCHANGED <<mu, wp>> /\ Fin(Act("StepR", "g_fetch"))
               ELSE RDone("ok") /\ Fin(Act("StepR", "ok"))

StepW ==
  /\ ~Finished(wp) /\ wp # "blk"
  /\ sc' = sc /\ rv' = rv
  /\ CASE wp = "init" ->
            /\ UNCHANGED <<bs, ff, ftk, rp>>
            /\ IF Mutex /\ mu # "" THEN wp' = "blk" /\ mu' = mu
               ELSE wp' = WFirst /\ mu' = (IF Mutex THEN "W" ELSE mu)
            /\ Fin(Act("StepW", wp'))
       [] wp = "g_tip" ->
            /\ UNCHANGED <<bs, ff, ftk>>
            /\ IF ~FTipOK \/ ff[HeightOf(ftk) + 1] # sc.ft * LS
               THEN WDone("err") /\ Fin(Act("StepW", "err"))
               ELSE wp' = "g_anc" /\ UNCHANGED <<mu, rp>> /\ Fin(Act("StepW", "g_anc"))
       [] wp = "g_anc" ->
            /\ UNCHANGED <<bs, ff, ftk>>
            /\ IF ~InIdx(sc.e)
               THEN WDone("err") /\ Fin(Act("StepW", "err"))
               ELSE wp' = "g_write" /\ UNCHANGED <<mu, rp>> /\ Fin(Act("StepW", "g_write"))
       [] wp = "g_write" ->
            /\ bs' = bs
            /\ ff' = ff \o [x \in 1..(sc.e - sc.ft) |-> (sc.ft + x) * LS]
            /\ ftk' = sc.e
            /\ WDone("ok") /\ Fin(Act("StepW", "ok"))

Init ==
  \E s \in RScen :
    /\ sc = s
    /\ bs = [x \in 1..(s.bt + 1) |-> x - 1]
    /\ ff = [x \in 1..(s.ft + 1) |-> (x - 1) * LS]
    /\ ftk = s.ft
    /\ mu = "" /\ rp = "init" /\ wp = "init"
    /\ rv = [th |-> 0, tb |-> 0, reg |-> 0]
    /\ abs = AbsInit
    /\ act = Act("Init", "ok")
    /\ viol = {}

Next == StepR \/ StepW

Spec == Init /\ [][Next]_vars

TypeOK ==
  /\ mu \in {"", "R", "W"}
  /\ Len(bs) >= 1 /\ Len(ff) >= 0
  /\ Mutex => (mu = "R" => ~Finished(rp)) /\ (mu = "W" => ~Finished(wp))

\* With the mutex the two functions are atomic w.r.t. each other: C03 holds in
\* every state (checked as an invariant when Mutex = TRUE).
NoViolation == viol = {}

State == [sc |-> sc, bs |-> bs, ff |-> ff, ftk |-> ftk, mu |-> mu, rp |-> rp, wp |-> wp, rv |-> rv]
View == <<sc, bs, ff, ftk, mu, rp, wp, rv, abs>>
=============================================================================
