------------------------------- MODULE CFRace -------------------------------
(***************************************************************************)
(* Second, small model of the CFSync family: the two functions of          *)
(* blockmanager.go that change the filter-header store, each run by its    *)
(* own goroutine, at STORE-CALL granularity:                               *)
(*                                                                         *)
(*   R  rollBackToHeight(h)        (block handler goroutine)               *)
(*   W  writeCFHeadersMsg(msg)     (cfHandler goroutine)                   *)
(*                                                                         *)
(* A process is parked in front of a store call (its pc names the call), on*)
(* the mutex, or is done.  Step(X) lets X execute the call it is parked at *)
(* and run on to its next store call.  CFSync.tla treats both functions as *)
(* atomic; this model is what justifies that, and what notices when it     *)
(* stops being true.                                                       *)
(*                                                                         *)
(*   R:  Lock; BlockHeaders.ChainTip; RegFilterHeaders.ChainTip;           *)
(*       while tip > h: BlockHeaders.FetchHeader(tip);                     *)
(*          [tip <= regHeight: RegFilterHeaders.RollbackLastBlock(prev)];  *)
(*          BlockHeaders.RollbackLastBlock; BlockHeaders.FetchHeader(prev);*)
(*          send Disconnected(block) on blockNtfnChan                      *)
(*       Unlock                                                            *)
(*   W:  Lock; store.ChainTip (prev-header check);                         *)
(*       BlockHeaders.FetchHeaderAncestors(stop); store.WriteHeaders;      *)
(*       send Connected(block) on blockNtfnChan for every block written;   *)
(*       Unlock                                                            *)
(*                                                                         *)
(* blockNtfnChan is unbuffered: a sender parks (pc "send") in the queue sq *)
(* of blocked senders until the receiver takes its event (action Recv,     *)
(* first come first served as in the Go runtime); ev is the sequence of    *)
(* events delivered so far (Connected(b) = b+1, Disconnected(b) = -(b+1)). *)
(*                                                                         *)
(* Mutex = TRUE is the code as it is (filterHeaderStoreMtx held by both    *)
(* functions from their first statement, b56652a): every interleaving      *)
(* collapses to the two serial orders plus blocked attempts.  Mutex =      *)
(* FALSE (no lock) is explored too: TLC shows on the model which           *)
(* interleavings break C03, and its behaviours are replayed against the    *)
(* real code as SCHEDULES (which goroutine is released next) - on the real *)
(* code a goroutine the schedule wants to release may sit on the mutex,    *)
(* then the command is skipped.                                            *)
(*                                                                         *)
(* One chain, block id = height, filter-header id = height * LS (true).    *)
(* The filter store is its flat file plus its tip key (a block hash whose  *)
(* height comes from the block index), as in headerfs.                     *)
(***************************************************************************)
EXTENDS Integers, Sequences, FiniteSets, TLC, Json, CFSyncProps

CONSTANTS Mutex,     \* filterHeaderStoreMtx taken by both functions
          MaxCS,     \* >= 99: every interleaving; otherwise at most MaxCS switches between R and W that
                     \* are not forced (used to enumerate ALL schedules of the variant without the
                     \* mutex with few context switches, instead of a cover of its transitions)
          RScen      \* set of scenarios [bt, ft, e, h]: block tip, filter tip,
                     \* last height of the cfheaders message, rollback target

VARIABLES sc,
          bs,        \* block store (ids by height); also the hash->height index
          ff,        \* filter header file
          ftk,       \* filter tip key (block id)
          mu,        \* "" | "R" | "W"   holder of the mutex
          rp, wp,    \* pcs
          rv,        \* R's locals [th, tb, reg, cur]
          wi,        \* W: height of the Connected event being sent
          sq,        \* goroutines blocked sending on blockNtfnChan: <<proc, event>>
          ev,        \* events delivered to the receiver
          cur, ncs,  \* last process stepped, number of switches (only if MaxCS < 99)
          abs, act, viol

vars == <<sc, bs, ff, ftk, mu, rp, wp, rv, wi, sq, ev, cur, ncs, abs, act, viol>>

InIdx(b)  == \E i \in 1..Len(bs) : bs[i] = b
HeightOf(b) == (CHOOSE i \in 1..Len(bs) : bs[i] = b) - 1

\* filter store ChainTip: height from the index, header from the file
FTipOK == InIdx(ftk) /\ HeightOf(ftk) + 1 <= Len(ff)

FObs == IF FTipOK /\ HeightOf(ftk) + 1 = Len(ff) THEN ff ELSE ff \o <<G>>

Finished(p) == p \in {"ok", "err"}

Obs == [B |-> bs, F |-> FObs, ban |-> <<>>, mem |-> <<0, 0, 0, 0>>,
        asg |-> <<>>, hard |-> 0, cpi |-> 2, rsc |-> <<sc.bt, sc.ft, sc.e, sc.h>>,
        ev |-> ev, q |-> IF Finished(rp) /\ Finished(wp) THEN 1 ELSE 0]

ActN(op, res, n) == [op |-> op, res |-> res, rs |-> <<>>, p |-> 0, j |-> 0, n |-> n, lo |-> 0, hi |-> 0]
Act(op, res) == ActN(op, res, 0)

Fin(a) ==
  /\ act'  = a
  /\ abs'  = AbsNext(abs, a, Obs')
  /\ viol' = Viol(abs, Obs, a, abs', Obs')

----------------------------------------------------------------------------
\* What a process does when it returns: release the mutex; a process parked
\* on it takes it and runs to its first store call.
RFirst == "g_btip"
WFirst == "g_tip"

\* R returns (res) - new values of <<mu, rp, wp>>
RDone(res) ==
  /\ rp' = res
  /\ IF Mutex /\ wp = "blk" THEN mu' = "W" /\ wp' = WFirst
     ELSE mu' = (IF Mutex THEN "" ELSE mu) /\ wp' = wp
WDone(res) ==
  /\ wp' = res
  /\ IF Mutex /\ rp = "blk" THEN mu' = "R" /\ rp' = RFirst
     ELSE mu' = (IF Mutex THEN "" ELSE mu) /\ rp' = rp

CanStep(p) == LET s == IF p = "R" THEN rp ELSE wp IN ~Finished(s) /\ s \notin {"blk", "send"}
Other(p) == IF p = "R" THEN "W" ELSE "R"
\* a switch away from a process that could go on is a (counted) context switch
SwOK(p) == MaxCS >= 99 \/ cur = "" \/ cur = p \/ ~CanStep(cur) \/ ncs < MaxCS
SwUpd(p) == IF MaxCS >= 99 THEN cur' = cur /\ ncs' = ncs
            ELSE /\ cur' = p
                 /\ ncs' = IF cur # "" /\ cur # p /\ CanStep(cur) THEN ncs + 1 ELSE ncs

----------------------------------------------------------------------------
StepR ==
  /\ ~Finished(rp) /\ rp \notin {"blk", "send"}
  /\ SwOK("R") /\ SwUpd("R")
  /\ sc' = sc /\ wi' = wi /\ ev' = ev
  /\ CASE rp = "init" ->
            /\ UNCHANGED <<bs, ff, ftk, rv, wp, sq>>
            /\ IF Mutex /\ mu # "" THEN rp' = "blk" /\ mu' = mu
               ELSE rp' = RFirst /\ mu' = (IF Mutex THEN "R" ELSE mu)
            /\ Fin(Act("StepR", rp'))
       [] rp = "g_btip" ->
            /\ rv' = [rv EXCEPT !.th = Len(bs) - 1, !.tb = bs[Len(bs)]]
            /\ rp' = "g_ftip"
            /\ UNCHANGED <<bs, ff, ftk, mu, wp, sq>>
            /\ Fin(Act("StepR", "g_ftip"))
       [] rp = "g_ftip" ->
            /\ UNCHANGED <<bs, ff, ftk, sq>>
            /\ IF ~FTipOK
               THEN /\ rv' = rv /\ RDone("err") /\ Fin(Act("StepR", "err"))
               ELSE /\ rv' = [rv EXCEPT !.reg = HeightOf(ftk)]
                    /\ IF rv.th > sc.h
                       THEN rp' = "g_fetch" /\ UNCHANGED <<mu, wp>> /\ Fin(Act("StepR", "g_fetch"))
                       ELSE RDone("ok") /\ Fin(Act("StepR", "ok"))
       [] rp = "g_fetch" ->
            /\ UNCHANGED <<bs, ff, ftk, sq>>
            /\ IF ~InIdx(rv.tb)
               THEN rv' = rv /\ RDone("err") /\ Fin(Act("StepR", "err"))
               ELSE LET nx == IF rv.th <= rv.reg THEN "g_frb" ELSE "g_brb" IN
                    /\ rv' = [rv EXCEPT !.cur = rv.tb]
                    /\ rp' = nx /\ UNCHANGED <<mu, wp>> /\ Fin(Act("StepR", nx))
       [] rp = "g_frb" ->
            \* filterHeaderStore.RollbackLastBlock(newTip = parent of the block)
            /\ bs' = bs /\ sq' = sq
            /\ IF ~InIdx(ftk) \/ HeightOf(ftk) = 0 \/ HeightOf(ftk) > Len(ff)
               THEN /\ UNCHANGED <<ff, ftk, rv>> /\ RDone("err") /\ Fin(Act("StepR", "err"))
               ELSE /\ ff' = SubSeq(ff, 1, Len(ff) - 1)
                    /\ ftk' = rv.tb - 1
                    /\ rv' = [rv EXCEPT !.reg = HeightOf(ftk) - 1]
                    /\ rp' = "g_brb" /\ UNCHANGED <<mu, wp>>
                    /\ Fin(Act("StepR", "g_brb"))
       [] rp = "g_brb" ->
            /\ UNCHANGED <<ff, ftk, sq>>
            /\ IF Len(bs) <= 1
               THEN /\ UNCHANGED <<bs, rv>> /\ RDone("err") /\ Fin(Act("StepR", "err"))
               ELSE /\ bs' = SubSeq(bs, 1, Len(bs) - 1)
                    /\ rv' = [rv EXCEPT !.th = Len(bs) - 2, !.tb = bs[Len(bs) - 1]]
                    /\ rp' = "g_fetch2" /\ UNCHANGED <<mu, wp>>
                    /\ Fin(Act("StepR", "g_fetch2"))
       [] rp = "g_fetch2" ->
            \* FetchHeader(newTip), then onBlockDisconnected: the send blocks
            /\ UNCHANGED <<bs, ff, ftk, rv, mu, wp>>
            /\ rp' = "send" /\ sq' = Append(sq, <<"R", -(rv.cur + 1)>>)
            /\ Fin(Act("StepR", "send"))

StepW ==
  /\ ~Finished(wp) /\ wp \notin {"blk", "send"}
  /\ SwOK("W") /\ SwUpd("W")
  /\ sc' = sc /\ rv' = rv /\ ev' = ev
  /\ CASE wp = "init" ->
            /\ UNCHANGED <<bs, ff, ftk, rp, sq, wi>>
            /\ IF Mutex /\ mu # "" THEN wp' = "blk" /\ mu' = mu
               ELSE wp' = WFirst /\ mu' = (IF Mutex THEN "W" ELSE mu)
            /\ Fin(Act("StepW", wp'))
       [] wp = "g_tip" ->
            /\ UNCHANGED <<bs, ff, ftk, sq, wi>>
            /\ IF ~FTipOK \/ ff[HeightOf(ftk) + 1] # sc.ft * LS
               THEN WDone("err") /\ Fin(Act("StepW", "err"))
               ELSE wp' = "g_anc" /\ UNCHANGED <<mu, rp>> /\ Fin(Act("StepW", "g_anc"))
       [] wp = "g_anc" ->
            /\ UNCHANGED <<bs, ff, ftk, sq, wi>>
            /\ IF ~InIdx(sc.e)
               THEN WDone("err") /\ Fin(Act("StepW", "err"))
               ELSE wp' = "g_write" /\ UNCHANGED <<mu, rp>> /\ Fin(Act("StepW", "g_write"))
       [] wp = "g_write" ->
            \* WriteHeaders, in-memory tip, then onBlockConnected for the first block
            /\ bs' = bs
            /\ ff' = ff \o [x \in 1..(sc.e - sc.ft) |-> (sc.ft + x) * LS]
            /\ ftk' = sc.e
            /\ wi' = sc.ft + 1
            /\ wp' = "send" /\ sq' = Append(sq, <<"W", sc.ft + 2>>)
            /\ UNCHANGED <<mu, rp>>
            /\ Fin(Act("StepW", "send"))

\* The receiver of blockNtfnChan takes the event of the sender that has been
\* waiting longest; that sender runs on to its next store call / send / end.
Recv ==
  /\ sq # <<>>
  /\ LET p == sq[1][1]
         x == sq[1][2]
     IN
     /\ ev' = Append(ev, x)
     /\ sc' = sc /\ UNCHANGED <<bs, ff, ftk, rv, cur, ncs>>
     /\ IF p = "R"
        THEN /\ sq' = Tail(sq) /\ wi' = wi
             /\ IF rv.th > sc.h
                THEN rp' = "g_fetch" /\ UNCHANGED <<mu, wp>> /\ Fin(ActN("Recv", "g_fetch", x))
                ELSE RDone("ok") /\ Fin(ActN("Recv", "ok", x))
        ELSE IF wi < sc.e
             THEN /\ wi' = wi + 1 /\ sq' = Append(Tail(sq), <<"W", wi + 2>>)
                  /\ UNCHANGED <<mu, rp, wp>>
                  /\ Fin(ActN("Recv", "send", x))
             ELSE /\ wi' = wi /\ sq' = Tail(sq)
                  /\ WDone("ok") /\ Fin(ActN("Recv", "ok", x))

Init ==
  \E s \in RScen :
    /\ sc = s
    /\ bs = [x \in 1..(s.bt + 1) |-> x - 1]
    /\ ff = [x \in 1..(s.ft + 1) |-> (x - 1) * LS]
    /\ ftk = s.ft
    /\ mu = "" /\ rp = "init" /\ wp = "init"
    /\ rv = [th |-> 0, tb |-> 0, reg |-> 0, cur |-> 0]
    /\ wi = 0 /\ sq = <<>> /\ ev = <<>> /\ cur = "" /\ ncs = 0
    /\ abs = AbsInit
    /\ act = Act("Init", "ok")
    /\ viol = {}

Next == StepR \/ StepW \/ Recv

Spec == Init /\ [][Next]_vars

TypeOK ==
  /\ mu \in {"", "R", "W"}
  /\ Len(bs) >= 1 /\ Len(ff) >= 0
  /\ Mutex => (mu = "R" => ~Finished(rp)) /\ (mu = "W" => ~Finished(wp))

\* With the mutex the two functions are atomic w.r.t. each other: C03 (and the
\* event-order clause of C19) hold in every state (checked as an invariant
\* when Mutex = TRUE).
NoViolation == viol = {}

AbsJ == [ech |-> abs.ech, nev |-> abs.nev, ebad |-> abs.ebad]
State == [sc |-> sc, bs |-> bs, ff |-> ff, ftk |-> ftk, mu |-> mu, rp |-> rp, wp |-> wp, rv |-> rv,
          wi |-> wi, sq |-> sq, ev |-> ev, cur |-> cur, ncs |-> ncs, abs |-> AbsJ]
View == <<sc, bs, ff, ftk, mu, rp, wp, rv, wi, sq, ev, cur, ncs, abs>>
=============================================================================
