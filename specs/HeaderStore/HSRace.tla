------------------------------- MODULE HSRace -------------------------------
(***************************************************************************)
(* Second model of the HeaderStore family: ONE WRITER against ONE READER   *)
(* on the two headerfs stores, at STORE-PRIMITIVE granularity.             *)
(*                                                                         *)
(*   W  runs the operations of a scenario one after the other              *)
(*        AppendB   blockHeaderStore.WriteHeaders        store.go:529      *)
(*        RollbackB blockHeaderStore.RollbackBlockHeaders store.go:439     *)
(*        AppendF   filterHeaderStore.WriteHeaders       store.go:1052     *)
(*        RollbackF filterHeaderStore.RollbackLastBlock  store.go:1148     *)
(*   R  runs read calls one after the other, each chosen freely among the  *)
(*      scenario's reads: FetchHeader(hash) :353, FetchHeaderByHeight :378,*)
(*      ChainTip :755, HeightFromHash :425, FetchHeaderAncestors :402,     *)
(*      LatestBlockLocator :645 of the block store; FetchHeader :968,      *)
(*      FetchHeaderByHeight :986, ChainTip :1123, FetchHeaderAncestors     *)
(*      :1004 of the filter store.                                         *)
(*                                                                         *)
(* Every call is the code's sequence of instructions (operator Code): the  *)
(* store's RWMutex operations exactly where the code at HEAD has them, and *)
(* the PRIMITIVES through which a store touches its two media:             *)
(*   v   walletdb.View   (index read transaction: heightFromHash, chainTip)*)
(*   u   walletdb.Update (index write transaction: addHeaders,             *)
(*                        truncateIndices)                                 *)
(*   rB rF  File.ReadAt  (readRaw / readHeadersFromFile)                   *)
(*   wB wF  File.Write   (appendRaw)                                       *)
(*   tB tF  File.Truncate (truncateHeaders; the Stat in front of it and the*)
(*                        Seek in appendRaw read a size that only W itself *)
(*                        changes and are not separate steps)              *)
(* A goroutine is parked in front of a primitive ("pre.x"), right behind   *)
(* it ("post.x"), on a store mutex ("blk"), or is between two calls        *)
(* ("idle").  Step(p) releases p: from idle it calls its next call and runs*)
(* to the first gate; from pre.x it performs x; from post.x it runs to the *)
(* next gate or returns.  Mutex operations happen on the way.  Both gates  *)
(* are needed: a lock taken too late is only visible behind a primitive, a *)
(* lock dropped too early only in front of one.                            *)
(*                                                                         *)
(* sync.RWMutex as in Go: a writer waiting in Lock keeps later RLocks out. *)
(* LatestBlockLocator takes the read lock and, still holding it, calls     *)
(* FetchHeaderByHeight which takes it AGAIN: with a writer waiting in      *)
(* between both park for ever (the model has these deadlock states).       *)
(*                                                                         *)
(* mode = "code" is the code at HEAD; its behaviours are PREDICTIONS for   *)
(* the replay (drift is measured).  The other modes are other placements   *)
(* of the locks; their behaviours are replayed as SCHEDULES only (which    *)
(* goroutine is released next, which read is called), so that a changed    *)
(* lock placement in the code meets the interleavings that expose it:      *)
(*   "nolock"  nobody locks: every interleaving at gate granularity        *)
(*   "wsplit"  the writer gives its lock up between any two of its         *)
(*             primitives (a reader that waited slips in, the writer waits *)
(*             for it) - the shape of a writer critical section cut in two *)
(*                                                                         *)
(* The two flat files are sequences of header ids (filter headers are named*)
(* by the id of their block), the index is id -> height plus one tip key   *)
(* per store, shared by both stores as in headerfs/index.go.               *)
(***************************************************************************)
EXTENDS Integers, Sequences, FiniteSets, TLC, Json, HSRaceProps

CONSTANTS Modes,      \* subset of {"code", "nolock", "wsplit"}
          N,          \* header ids 0..N-1
          FixAncLock,        \* code version: FetchHeaderAncestors (both stores) holds the read lock
          FixLocatorRelock,  \* code version: blockLocatorFromHash reads without locking again
          Scen        \* sequence of scenarios [lb, lf, mr, prog, reads]
                      \*   mr    : read calls per history
                      \*   prog  : sequence of [call, n, batch]
                      \*   reads : set of <<call, arg, n>>

VARIABLES mode,       \* lock placement (see above), fixed in the initial state
          sc,         \* index of the scenario
          st,         \* stores: [fB, fF (files), idx (Seq over ids: height | NF), tB, tF (tip keys)]
          lk,         \* [B|F -> [r readers holding, w writer holding, p writer waiting]]
          R, W,       \* goroutines: [call, arg, n, batch, l (label), ph, loc]
          nr, wi,     \* calls started so far
          abs, act, viol

vars == <<mode, sc, st, lk, R, W, nr, wi, abs, act, viol>>

Sc == Scen[sc]
Locks == mode # "nolock"

----------------------------------------------------------------------------
\* The code.  k: rlock | runlock | lock | unlock | nop | prim | ret;  s: store;
\* g: gate name of a primitive;  f: what the primitive does (Exec).
I(k, s, g, f) == [k |-> k, s |-> s, g |-> g, f |-> f]
RET == I("ret", "", "", "")

Code0(call, l) ==
  CASE call = "FetchHeader" ->            \* store.go:353-372
         CASE l = 1 -> I("rlock", "B", "", "")
           [] l = 2 -> I("prim", "B", "v", "hof")        \* heightFromHash
           [] l = 3 -> I("prim", "B", "rB", "one")       \* readHeader
           [] l = 4 -> I("runlock", "B", "", "")
           [] OTHER -> RET
    [] call = "ByHeight" ->               \* store.go:378-392
         CASE l = 1 -> I("rlock", "B", "", "")
           [] l = 2 -> I("prim", "B", "rB", "one")
           [] l = 3 -> I("runlock", "B", "", "")
           [] OTHER -> RET
    [] call = "ChainTip" ->               \* store.go:755-771
         CASE l = 1 -> I("rlock", "B", "", "")
           [] l = 2 -> I("prim", "B", "v", "tip")        \* chainTip
           [] l = 3 -> I("prim", "B", "rB", "one")
           [] l = 4 -> I("runlock", "B", "", "")
           [] OTHER -> RET
    [] call = "HeightFromHash" ->         \* store.go:425-427, no store lock
         CASE l = 1 -> I("prim", "B", "v", "hof")
           [] OTHER -> RET
    [] call = "Ancestors" /\ ~FixAncLock -> \* store.go:402-419, no store lock
         CASE l = 1 -> I("prim", "B", "v", "hof")
           [] l = 2 -> I("prim", "B", "rB", "range")     \* readHeaderRange
           [] OTHER -> RET
    [] call = "Ancestors" ->
         CASE l = 1 -> I("rlock", "B", "", "")
           [] l = 2 -> I("prim", "B", "v", "hof")
           [] l = 3 -> I("prim", "B", "rB", "range")
           [] l = 4 -> I("runlock", "B", "", "")
           [] OTHER -> RET
    [] call = "Locator" ->                \* store.go:645-658 + 600-639
         CASE l = 1 -> I("rlock", "B", "", "")
           [] l = 2 -> I("prim", "B", "v", "tip")        \* chainTip
           [] l = 3 -> I("prim", "B", "v", "hoft")       \* heightFromHash(tip)
           [] l = 4 -> IF FixLocatorRelock THEN I("nop", "", "", "")
                       ELSE I("rlock", "B", "", "")      \* FetchHeaderByHeight: RLock again
           [] l = 5 -> I("prim", "B", "rB", "loc1")
           [] l = 6 -> IF FixLocatorRelock THEN I("nop", "", "", "") ELSE I("runlock", "B", "", "")
           [] l = 7 -> I("runlock", "B", "", "")
           [] OTHER -> RET
    [] call = "FFetchHeader" ->           \* store.go:968-981
         CASE l = 1 -> I("rlock", "F", "", "")
           [] l = 2 -> I("prim", "F", "v", "hof")
           [] l = 3 -> I("prim", "F", "rF", "one")
           [] l = 4 -> I("runlock", "F", "", "")
           [] OTHER -> RET
    [] call = "FByHeight" ->              \* store.go:986-994
         CASE l = 1 -> I("rlock", "F", "", "")
           [] l = 2 -> I("prim", "F", "rF", "one")
           [] l = 3 -> I("runlock", "F", "", "")
           [] OTHER -> RET
    [] call = "FChainTip" ->              \* store.go:1123-1139
         CASE l = 1 -> I("rlock", "F", "", "")
           [] l = 2 -> I("prim", "F", "v", "tip")
           [] l = 3 -> I("prim", "F", "rF", "one")
           [] l = 4 -> I("runlock", "F", "", "")
           [] OTHER -> RET
    [] call = "FAncestors" /\ ~FixAncLock -> \* store.go:1004-1021, no store lock
         CASE l = 1 -> I("prim", "F", "v", "hof")
           [] l = 2 -> I("prim", "F", "rF", "range")
           [] OTHER -> RET
    [] call = "FAncestors" ->
         CASE l = 1 -> I("rlock", "F", "", "")
           [] l = 2 -> I("prim", "F", "v", "hof")
           [] l = 3 -> I("prim", "F", "rF", "range")
           [] l = 4 -> I("runlock", "F", "", "")
           [] OTHER -> RET
    [] call = "AppendB" ->                \* store.go:529-592
         CASE l = 1 -> I("lock", "B", "", "")
           [] l = 2 -> I("prim", "B", "wB", "append")    \* appendRaw
           [] l = 3 -> I("prim", "B", "u", "add")        \* addHeaders
           [] l = 4 -> I("unlock", "B", "", "")
           [] OTHER -> RET
    [] call = "RollbackB" ->              \* store.go:439-495
         CASE l = 1 -> I("lock", "B", "", "")
           [] l = 2 -> I("prim", "B", "v", "tipchk")     \* chainTip, n > height fails
           [] l = 3 -> I("prim", "B", "rB", "range")     \* readHeaderRange(tip-n, tip)
           [] l = 4 -> I("prim", "B", "u", "truncidx")   \* truncateIndices(prev, gone, true)
           [] l = 5 -> I("prim", "B", "tB", "truncn")    \* truncateHeaders(n)
           [] l = 6 -> I("unlock", "B", "", "")
           [] OTHER -> RET
    [] call = "AppendF" ->                \* store.go:1052-1117
         CASE l = 1 -> I("lock", "F", "", "")
           [] l = 2 -> I("prim", "F", "wF", "append")
           [] l = 3 -> I("prim", "F", "u", "settip")     \* truncateIndices(newTip, nil, false)
           [] l = 4 -> I("unlock", "F", "", "")
           [] OTHER -> RET
    [] call = "RollbackF" ->              \* store.go:1148-1187
         CASE l = 1 -> I("lock", "F", "", "")
           [] l = 2 -> I("prim", "F", "v", "tip")
           [] l = 3 -> I("prim", "F", "rF", "prev")      \* readHeader(tip-1)
           [] l = 4 -> I("prim", "F", "u", "newtip")     \* truncateIndices(newTip, {}, false)
           [] l = 5 -> I("prim", "F", "tF", "trunc1")    \* truncateHeaders(1)
           [] l = 6 -> I("unlock", "F", "", "")
           [] OTHER -> RET
    [] OTHER -> RET

\* mode "wsplit": lock, p1, ..., pk, unlock becomes lock, p1, unlock, lock, p2, ..., pk, unlock
WOps == {"AppendB", "RollbackB", "AppendF", "RollbackF"}
NPrims(call) == IF call \in {"AppendB", "AppendF"} THEN 2 ELSE 4
Split(call) == mode = "wsplit" /\ call \in WOps

Code(call, l) ==
  IF ~Split(call) \/ l = 1 THEN Code0(call, l)
  ELSE LET i == ((l - 2) \div 3) + 1
           r == (l - 2) % 3
           s == Code0(call, 1).s
       IN  IF i > NPrims(call) THEN RET
           ELSE CASE r = 0 -> Code0(call, i + 1)
                  [] r = 1 -> I("unlock", s, "", "")
                  [] OTHER -> IF i < NPrims(call) THEN I("lock", s, "", "") ELSE RET

\* label of the instruction a failed primitive jumps to (the deferred unlock / the return)
Exit0(call) ==
  CASE call \in {"FetchHeader", "ChainTip", "FFetchHeader", "FChainTip", "AppendB", "AppendF"} -> 4
    [] call \in {"Ancestors", "FAncestors"} -> IF FixAncLock THEN 4 ELSE 3
    [] call \in {"ByHeight", "FByHeight"} -> 3
    [] call = "HeightFromHash" -> 2
    [] call \in {"RollbackB", "RollbackF"} -> 6
    [] OTHER -> 7           \* Locator

Exit(call) == IF Split(call) THEN 3 * NPrims(call) ELSE Exit0(call)

\* label after instruction l has been executed with locals loc
Nx(call, l, loc) ==
  IF call = "Locator"
  THEN CASE l = 2 /\ loc.err = 1 -> 7
         [] l = 3 /\ loc.h = 0   -> 7          \* tip is genesis / not indexed: locator = <<tip>>
         [] l = 6 -> IF loc.err = 1 \/ loc.h = 0 THEN 7 ELSE 4
         [] OTHER -> l + 1
  ELSE IF Code(call, l).k = "prim" /\ loc.err = 1 THEN Exit(call) ELSE l + 1

----------------------------------------------------------------------------
\* Primitives
ReadEntry(f, h) == IF h >= 0 /\ h < Len(f) THEN f[h + 1] ELSE NF
IdxH(ix, i)     == IF i >= 0 /\ i < N THEN ix[i + 1] ELSE NF
Last(s)         == s[Len(s)]
Elems(s)        == {s[k] : k \in 1..Len(s)}
Fail(loc)       == [loc EXCEPT !.err = 1]

Exec(q, ins, s) ==
  LET loc == q.loc
      fl  == IF ins.s = "B" THEN s.fB ELSE s.fF
      setf(x) == IF ins.s = "B" THEN [s EXCEPT !.fB = x] ELSE [s EXCEPT !.fF = x]
  IN
  CASE ins.f = "hof" ->
         LET h == IdxH(s.idx, q.arg)
         IN  [loc |-> IF h = NF THEN Fail([loc EXCEPT !.h = NF]) ELSE [loc EXCEPT !.h = h], st |-> s]
    [] ins.f \in {"tip", "tipchk"} ->
         LET t == IF ins.s = "B" THEN s.tB ELSE s.tF
             h == IdxH(s.idx, t)
             l1 == [loc EXCEPT !.t = t, !.h = h]
         IN  [loc |-> IF h = NF \/ (ins.f = "tipchk" /\ q.n > h) THEN Fail(l1) ELSE l1, st |-> s]
    [] ins.f = "hoft" ->
         LET h == IdxH(s.idx, loc.t)
         IN  [loc |-> [loc EXCEPT !.h = IF h = NF THEN 0 ELSE h, !.acc = <<loc.t>>], st |-> s]
    [] ins.f = "one" ->
         LET v == ReadEntry(fl, loc.h)
         IN  [loc |-> IF v = NF THEN Fail(loc) ELSE [loc EXCEPT !.acc = <<v>>], st |-> s]
    [] ins.f = "prev" ->
         LET v == ReadEntry(fl, loc.h - 1)
         IN  [loc |-> IF v = NF THEN Fail(loc) ELSE [loc EXCEPT !.acc = <<v>>], st |-> s]
    [] ins.f = "range" ->
         [loc |-> IF q.n > loc.h \/ loc.h + 1 > Len(fl) THEN Fail(loc)
                  ELSE [loc EXCEPT !.acc = SubSeq(fl, loc.h - q.n + 1, loc.h + 1)], st |-> s]
    [] ins.f = "loc1" ->
         LET v == ReadEntry(fl, loc.h - 1)
         IN  [loc |-> IF v = NF THEN Fail(loc)
                      ELSE [loc EXCEPT !.acc = @ \o <<v>>, !.h = @ - 1], st |-> s]
    [] ins.f = "append" -> [loc |-> loc, st |-> setf(fl \o q.batch)]
    [] ins.f = "add" ->
         [loc |-> loc,
          st  |-> [s EXCEPT !.idx = [k \in 1..N |->
                                       IF \E j \in 1..Len(q.batch) : q.batch[j] = k - 1
                                       THEN q.n + (CHOOSE j \in 1..Len(q.batch) : q.batch[j] = k - 1) - 1
                                       ELSE s.idx[k]],
                             !.tB = Last(q.batch)]]
    [] ins.f = "settip" -> [loc |-> loc, st |-> [s EXCEPT !.tF = Last(q.batch)]]
    [] ins.f = "truncidx" ->
         LET gone == Elems(Tail(loc.acc))
         IN  [loc |-> loc,
              st  |-> [s EXCEPT !.idx = [k \in 1..N |-> IF (k - 1) \in gone THEN NF ELSE s.idx[k]],
                                 !.tB = loc.acc[1]]]
    [] ins.f = "newtip" -> [loc |-> loc, st |-> [s EXCEPT !.tF = q.n]]
    [] ins.f = "truncn" -> [loc |-> loc, st |-> setf(SubSeq(fl, 1, Len(fl) - q.n))]
    [] ins.f = "trunc1" -> [loc |-> loc, st |-> setf(SubSeq(fl, 1, Len(fl) - 1))]
    [] OTHER -> [loc |-> loc, st |-> s]

\* what a read hands back / whether an operation reports success
Val(q) ==
  LET loc == q.loc IN
  CASE q.call = "FetchHeader"    -> IF loc.err = 1 THEN <<NF, NF>> ELSE <<loc.acc[1], loc.h>>
    [] q.call \in {"ByHeight", "FByHeight", "FFetchHeader"} -> IF loc.err = 1 THEN <<NF>> ELSE loc.acc
    [] q.call \in {"ChainTip", "FChainTip"} -> IF loc.err = 1 THEN <<ERR, ERR>> ELSE <<loc.acc[1], loc.h>>
    [] q.call = "HeightFromHash" -> <<loc.h>>
    [] q.call \in {"Ancestors", "FAncestors"} -> IF loc.err = 1 THEN <<ERR>> ELSE <<loc.h - q.n>> \o loc.acc
    [] q.call = "Locator"        -> IF loc.err = 1 THEN <<ERR>> ELSE loc.acc
    [] OTHER -> <<>>

----------------------------------------------------------------------------
\* sync.RWMutex and running on to the next gate
Idle == [call |-> "", arg |-> 0, n |-> 0, batch |-> <<>>, l |-> 0, ph |-> "idle",
         loc |-> [h |-> NF, t |-> NF, acc |-> <<>>, err |-> 0]]

\* q is about to execute the instruction at q.l and runs on to its next gate.
\* Adv1: a goroutine that has just been let in by the other one's unlock (it
\* reaches a primitive before it unlocks anything itself); returns [q, lk].
RECURSIVE Adv1(_, _)
Adv1(q, l0) ==
  LET ins == Code(q.call, q.l)
      on(l1) == Adv1([q EXCEPT !.l = Nx(q.call, q.l, q.loc)], l1)
  IN
  CASE ins.k = "prim" -> [q |-> [q EXCEPT !.ph = "pre"], lk |-> l0]
    [] ins.k = "ret"  -> [q |-> [q EXCEPT !.ph = "ret"], lk |-> l0]
    [] ~Locks \/ ins.k = "nop" -> on(l0)
    [] ins.k = "rlock" ->
         IF l0[ins.s].w = 1 \/ l0[ins.s].p = 1
         THEN [q |-> [q EXCEPT !.ph = "blk"], lk |-> l0]
         ELSE on([l0 EXCEPT ![ins.s].r = @ + 1])
    [] ins.k = "lock" ->
         IF l0[ins.s].r > 0
         THEN [q |-> [q EXCEPT !.ph = "blk"], lk |-> [l0 EXCEPT ![ins.s].p = 1]]
         ELSE on([l0 EXCEPT ![ins.s].w = 1, ![ins.s].p = 0])
    [] ins.k = "runlock" -> on([l0 EXCEPT ![ins.s].r = @ - 1])
    [] OTHER (* unlock *) -> on([l0 EXCEPT ![ins.s].w = 0])

\* a goroutine parked on a mutex tries again when the other one unlocks
Wake(o, l0) == IF o.ph = "blk" THEN Adv1(o, l0) ELSE [q |-> o, lk |-> l0]

\* the released goroutine q (the other one is o); an unlock lets a waiting o in
\* at once, as sync.RWMutex does; returns [q, o, lk]
RECURSIVE Adv(_, _, _)
Adv(q, o, l0) ==
  LET ins == Code(q.call, q.l)
      nq  == [q EXCEPT !.l = Nx(q.call, q.l, q.loc)]
      hand(l1) == LET w == Wake(o, l1) IN Adv(nq, w.q, w.lk)
  IN
  CASE ins.k = "prim" -> [q |-> [q EXCEPT !.ph = "pre"], o |-> o, lk |-> l0]
    [] ins.k = "ret"  -> [q |-> [q EXCEPT !.ph = "ret"], o |-> o, lk |-> l0]
    [] ~Locks \/ ins.k = "nop" -> Adv(nq, o, l0)
    [] ins.k = "rlock" ->
         IF l0[ins.s].w = 1 \/ l0[ins.s].p = 1
         THEN [q |-> [q EXCEPT !.ph = "blk"], o |-> o, lk |-> l0]
         ELSE Adv(nq, o, [l0 EXCEPT ![ins.s].r = @ + 1])
    [] ins.k = "lock" ->
         IF l0[ins.s].r > 0
         THEN [q |-> [q EXCEPT !.ph = "blk"], o |-> o, lk |-> [l0 EXCEPT ![ins.s].p = 1]]
         ELSE Adv(nq, o, [l0 EXCEPT ![ins.s].w = 1, ![ins.s].p = 0])
    [] ins.k = "runlock" -> hand([l0 EXCEPT ![ins.s].r = @ - 1])
    [] OTHER (* unlock *) -> hand([l0 EXCEPT ![ins.s].w = 0])

PcName(q) ==
  CASE q.ph = "pre"  -> "pre." \o Code(q.call, q.l).g
    [] q.ph = "post" -> "post." \o Code(q.call, q.l).g
    [] OTHER -> q.ph

Settle(q) == IF q.ph = "ret" THEN Idle ELSE q

----------------------------------------------------------------------------
Obs == [sc |-> sc, l0 |-> <<Sc.lb, Sc.lf>>,
        fB |-> st.fB, fF |-> st.fF, hof |-> st.idx, tB |-> st.tB, tF |-> st.tF,
        rp |-> PcName(R), wp |-> PcName(W)]

Act(p, ph, q, pc) ==
  [op |-> p, ph |-> ph, call |-> q.call, arg |-> q.arg, n |-> q.n, batch |-> q.batch, pc |-> pc,
   res |-> IF pc = "ret" THEN (IF q.loc.err = 1 /\ p = "W" THEN "err" ELSE "ok") ELSE "",
   val |-> IF pc = "ret" /\ p = "R" THEN Val(q) ELSE <<>>]

Fin(a) ==
  /\ act'  = a
  /\ abs'  = AbsNext(abs, a, Obs')
  /\ viol' = Viol(abs, Obs, a, abs', Obs')

\* goroutine p (record q, the other one is o) is released
Move(p, q, o, ph, s1) ==
  \* q has been prepared (call chosen / primitive done / label advanced) and runs on
  LET a1 == Adv(q, o, lk)
      me == Settle(a1.q)
  IN  /\ st' = s1
      /\ lk' = a1.lk
      /\ IF p = "R" THEN R' = me /\ W' = a1.o ELSE W' = me /\ R' = a1.o
      /\ Fin(Act(p, ph, a1.q, PcName(a1.q)))

Step(p) ==
  LET q == IF p = "R" THEN R ELSE W
      o == IF p = "R" THEN W ELSE R
  IN
  /\ sc' = sc /\ mode' = mode
  /\ CASE q.ph = "idle" /\ p = "R" ->
            /\ nr < Sc.mr /\ nr' = nr + 1 /\ wi' = wi
            /\ \E c \in Sc.reads :
                 Move(p, [Idle EXCEPT !.call = c[1], !.arg = c[2], !.n = c[3], !.l = 1,
                                      !.loc.h = IF c[1] \in {"ByHeight", "FByHeight"} THEN c[2] ELSE NF],
                      o, "start", st)
       [] q.ph = "idle" /\ p = "W" ->
            /\ wi < Len(Sc.prog) /\ wi' = wi + 1 /\ nr' = nr
            /\ LET op == Sc.prog[wi + 1]
               IN  Move(p, [Idle EXCEPT !.call = op.call, !.n = op.n, !.batch = op.batch, !.l = 1],
                        o, "start", st)
       [] q.ph = "pre" ->
            /\ UNCHANGED <<nr, wi, lk>>
            /\ LET x  == Exec(q, Code(q.call, q.l), st)
                   q1 == [q EXCEPT !.loc = x.loc, !.ph = "post"]
               IN  /\ st' = x.st
                   /\ IF p = "R" THEN R' = q1 /\ W' = W ELSE W' = q1 /\ R' = R
                   /\ Fin(Act(p, "step", q1, PcName(q1)))
       [] q.ph = "post" ->
            /\ UNCHANGED <<nr, wi>>
            /\ Move(p, [q EXCEPT !.l = Nx(q.call, q.l, q.loc)], o, "step", st)
       [] OTHER -> FALSE          \* parked on a mutex

Init ==
  /\ mode \in Modes
  /\ sc \in 1..Len(Scen)
  /\ st = [fB  |-> [k \in 1..Sc.lb |-> k - 1],
           fF  |-> [k \in 1..Sc.lf |-> k - 1],
           idx |-> [k \in 1..N |-> IF k <= Sc.lb THEN k - 1 ELSE NF],
           tB  |-> Sc.lb - 1, tF |-> Sc.lf - 1]
  /\ lk = [B |-> [r |-> 0, w |-> 0, p |-> 0], F |-> [r |-> 0, w |-> 0, p |-> 0]]
  /\ R = Idle /\ W = Idle /\ nr = 0 /\ wi = 0
  /\ abs = Start(Obs)
  /\ act = [op |-> "Init", ph |-> "", call |-> "", arg |-> 0, n |-> 0, batch |-> <<>>, pc |-> "",
            res |-> "", val |-> <<>>]
  /\ viol = {}

Next == Step("R") \/ Step("W")

Spec == Init /\ [][Next]_vars

----------------------------------------------------------------------------
TypeOK ==
  /\ \A s \in {"B", "F"} : /\ lk[s].r \in 0..2 /\ lk[s].w \in {0, 1} /\ lk[s].p \in {0, 1}
                           /\ (lk[s].w = 1 => lk[s].r = 0)
  /\ R.ph \in {"idle", "pre", "post", "blk"} /\ W.ph \in {"idle", "pre", "post", "blk"}
  /\ Locks \/ (R.ph # "blk" /\ W.ph # "blk")
  /\ mode \in {"code", "nolock", "wsplit"}

\* The recursive read lock: both goroutines parked for ever.
Deadlocked == R.ph = "blk" /\ W.ph = "blk"

NoViolation == viol = {}

State == [mode |-> mode, sc |-> sc, st |-> st, lk |-> lk, R |-> R, W |-> W, nr |-> nr, wi |-> wi,
          abs |-> [lists |-> abs.lists, nd |-> abs.nd, fl |-> abs.fl, rs |-> abs.rs]]
View == <<mode, sc, st, lk, R, W, nr, wi, abs>>
=============================================================================
