----------------------------- MODULE HeaderStore -----------------------------
(***************************************************************************)
(* Implementation-shaped model of neutrino's headerfs stores               *)
(* (headerfs/store.go, file.go, index.go): a flat file per store plus one  *)
(* shared bbolt index bucket (hash -> height, and one tip key per store).  *)
(*                                                                         *)
(* The flat file is modelled at HALF-ENTRY granularity: every header is    *)
(* two cells <<id,1>>,<<id,2>>.  That is the coarsest grain at which a     *)
(* torn write (k entries + a fragment), a trailing fragment surviving      *)
(* recovery, and the resulting SHIFT of all later entries are visible.     *)
(*                                                                         *)
(* pos[s] is the operating-system file offset of the descriptor: the code  *)
(* (file.go appendRaw) asks for it with Seek(0, SeekCurrent) to know where *)
(* to truncate back to after a partial write; the descriptor is opened     *)
(* O_APPEND, so the offset is 0 after opening, is moved to the end only by *)
(* a write, and is left stale by Truncate.                                 *)
(*                                                                         *)
(* Every store call runs under the store mutex and the stores are used by  *)
(* one goroutine, so the only thing that can fall between two durable      *)
(* steps of a call is a failure or a crash.  Each call is therefore ONE    *)
(* action whose parameter `stop` says where it stops: "none" (runs to      *)
(* completion), an I/O error at a durable step ("w" = the file write       *)
(* returns after sn cells with an error, "idx" = the index transaction     *)
(* fails), or a crash ("cw" = the process dies after sn cells of the file  *)
(* write reached the disk, "c1" = it dies between the first and second     *)
(* durable step).  A crash is followed by Recover (both stores reopened).  *)
(*                                                                         *)
(* Code-version switches (the spec follows the code; each switch is the    *)
(* behaviour before / after one repair):                                   *)
(*   FixSeekEnd        appendRaw takes the truncate-back position from the *)
(*                     end of the file instead of the descriptor offset    *)
(*   FixRollbackOrder  rollbacks update the index before truncating the    *)
(*                     file (so a crash in between leaves file >= index,   *)
(*                     which start-up reconciliation repairs)              *)
(*   FixTornTail       opening a store first drops a trailing fragment     *)
(*                                                                         *)
(* The index has two layouts (index.go): entries written by this version   *)
(* live in one of 65536 hash-prefix sub-buckets (idx), entries written by  *)
(* an older version live directly in the root bucket (ridx).  Lookups try  *)
(* the sub-bucket first and fall back to the root bucket; a rollback       *)
(* deletes a root entry if there is one, else the sub-bucket entry; new    *)
(* entries always go to the sub-buckets.  The environment action Legacy    *)
(* turns the index into what an older version would have left behind (all  *)
(* entries in the root bucket) at any point of a history.                  *)
(***************************************************************************)
EXTENDS Integers, Sequences, FiniteSets, TLC, Json, HeaderStoreProps

CONSTANTS N,          \* header ids are 0..N-1, 0 is genesis
          MaxLen,     \* longest block list (incl. genesis)
          MaxBatch,   \* largest append
          MaxOps,     \* operations per history
          MaxFaults,  \* I/O errors per history
          MaxCrashes, \* crashes per history
          MaxLegacy,  \* 1: the Legacy action may happen (once per history)
          Scale,      \* batch-size class: every header id >= 1 stands for a RUN of Scale
                      \* consecutive real headers (1: a model entry is one header; 2251: an
                      \* append of k ids is ONE WriteHeaders call with 2251*k headers, i.e.
                      \* more than wire.MaxBlockHeadersPerMsg = 2000, the size class of header
                      \* import batches).  A cell of `file` then is half a run (Scale*40 bytes
                      \* of the block file: with an odd Scale a torn write ends inside an
                      \* entry).  The driver writes / rolls back whole runs and projects the
                      \* reads of EVERY real height and EVERY real hash of a run back to the
                      \* id (G if the members of a run do not answer alike).
          FixSeekEnd, FixRollbackOrder, FixTornTail

VARIABLES file,   \* [B |-> Seq(cell), F |-> Seq(cell)]
          pos,    \* [B |-> Nat, F |-> Nat]   descriptor offsets
          idx,    \* [0..N-1 -> Int]  hash->height, prefix sub-buckets, NF if absent
          ridx,   \* [0..N-1 -> Int]  hash->height, legacy root bucket, NF if absent
          leg,    \* 1 once the Legacy action has happened
          tipk,   \* [B |-> id, F |-> id]     tip keys (a block hash each)
          up,     \* 1 open, 2 crashed (awaiting Recover), 0 dead (open failed)
          nops, nfaults, ncrashes,
          abs,    \* history: abstract lists of HeaderStoreProps
          act,    \* history: last action (label for replay)
          viol    \* history: properties violated by the last transition

cvars == <<file, pos, idx, ridx, tipk, up>>
vars  == <<file, pos, idx, ridx, leg, tipk, up, nops, nfaults, ncrashes, abs, act, viol>>

Ids == 0..(N-1)
H   == MaxLen + 1            \* heights 0..MaxLen are read back

Zero == <<-9, 0>>
CellsOf(batch) ==
  [k \in 1..(2 * Len(batch)) |-> <<batch[(k + 1) \div 2], 2 - (k % 2)>>]

ReadAt(f, h) ==
  IF h >= 0 /\ 2 * h + 2 <= Len(f)
  THEN LET c1 == f[2 * h + 1]
           c2 == f[2 * h + 2]
       IN  IF c1[2] = 1 /\ c2[2] = 2 /\ c1[1] = c2[1] /\ c1[1] >= 0
           THEN c1[1] ELSE G
  ELSE NF

TruncTo(f, n) == IF n <= Len(f) THEN SubSeq(f, 1, n)
                 ELSE f \o [k \in 1..(n - Len(f)) |-> Zero]

\* index.go getHeaderEntry: sub-bucket first, then the legacy root bucket.
Lk(ix, rx, i) == IF i \in Ids THEN (IF ix[i] # NF THEN ix[i] ELSE rx[i]) ELSE NF
IdxH(i) == Lk(idx, ridx, i)

\* Header id i (i >= 1) is built on top of id i-1 (PrevBlock); CheckConnectivity
\* walks the file from the tip down to height 1 and wants every header to be
\* the parent of the one above it and to be indexed at its height.
Connected(fl, ix, rx, tk) ==
  LET th == Lk(ix, rx, tk)
  IN  \* th = 0: the loop variable (uint32 tipHeight - 1) wraps around and the
      \* first read fails: a genesis-only store is reported as NOT connected.
      \* (CheckConnectivity has no caller outside the tests; the model follows the code.)
      /\ th # NF /\ th >= 1 /\ ReadAt(fl, th) # NF
      /\ \A h \in 1..(th - 1) :
            LET x == ReadAt(fl, h)
                y == ReadAt(fl, h + 1)
            IN  x \in Ids /\ Lk(ix, rx, x) = h /\ y = x + 1

----------------------------------------------------------------------------
\* Observables: exactly what the Go projection reads through the public API.
ObsOf(fl, ix, rx, tk, u) ==
  LET ixh(i) == Lk(ix, rx, i)
      tipOf(s) == LET t == tk[s]
                      h == ixh(t)
                      r == ReadAt(fl[s], h)
                  IN  IF h = NF \/ r = NF THEN <<ERR, ERR>> ELSE <<r, h>>
      byH(s)   == [h \in 1..H |-> ReadAt(fl[s], h - 1)]
      byHash(s) == [i \in 1..N |-> IF ixh(i-1) = NF THEN NF
                                    ELSE ReadAt(fl[s], ixh(i-1))]
      anc(s)   == LET t == tk[s]
                      h == ixh(t)
                  IN  IF h = NF \/ 2 * h + 2 > Len(fl[s]) THEN <<ERR>>
                      ELSE [k \in 1..(h + 1) |-> ReadAt(fl[s], k - 1)]
      loc      == LET t == tk.B
                      h == ixh(t)
                  IN  IF h = NF THEN <<ERR>>
                      ELSE IF h = 0 THEN <<t>>
                      ELSE IF \E k \in 1..h : ReadAt(fl.B, h - k) = NF THEN <<ERR>>
                      ELSE <<t>> \o [k \in 1..h |-> ReadAt(fl.B, h - k)]
      \* BlockLocatorFromHash(hash of id i): from the indexed height of i down
      locOf(i) == LET h == ixh(i)
                  IN  IF h = NF \/ h = 0 THEN <<i>>      \* unknown hash: the locator is just that hash
                      ELSE IF \E k \in 1..h : ReadAt(fl.B, h - k) = NF THEN <<ERR>>
                      ELSE <<i>> \o [k \in 1..h |-> ReadAt(fl.B, h - k)]
  IN  IF u # 1
      THEN [up |-> 0,
            B |-> [tip |-> <<ERR, ERR>>, byH |-> [h \in 1..H |-> ERR],
                   hOf |-> [i \in 1..N |-> ERR], byHash |-> [i \in 1..N |-> ERR],
                   anc |-> <<ERR>>, loc |-> <<ERR>>,
                   locOf |-> [i \in 1..N |-> <<ERR>>]],
            F |-> [tip |-> <<ERR, ERR>>, byH |-> [h \in 1..H |-> ERR],
                   byHash |-> [i \in 1..N |-> ERR], anc |-> <<ERR>>],
            aux |-> [conn |-> ERR]]
      ELSE [up |-> 1,
            B |-> [tip |-> tipOf("B"), byH |-> byH("B"),
                   hOf |-> [i \in 1..N |-> ixh(i-1)],
                   byHash |-> byHash("B"), anc |-> anc("B"), loc |-> loc,
                   locOf |-> [i \in 1..N |-> locOf(i-1)]],
            F |-> [tip |-> tipOf("F"), byH |-> byH("F"),
                   byHash |-> byHash("F"), anc |-> anc("F")],
            \* not part of the judged read API: CheckConnectivity (model prediction only)
            aux |-> [conn |-> IF Connected(fl.B, ix, rx, tk.B) THEN 0 ELSE ERR]]

Obs == ObsOf(file, idx, ridx, tipk, up)

----------------------------------------------------------------------------
\* file.go appendRaw.  wn = -1: the write succeeds; wn >= 0: the write puts wn
\* cells on disk and returns an error.
AppendRaw(f, p, cells, wn) ==
  LET cur == IF FixSeekEnd THEN Len(f) ELSE p
  IN  IF wn = -1
      THEN [file |-> f \o cells,
            pos |-> IF Len(cells) = 0 THEN p ELSE Len(f) + Len(cells),   \* an empty write is no syscall
            err |-> FALSE]
      ELSE LET f1 == f \o SubSeq(cells, 1, wn)
           IN  IF wn > 0
               THEN [file |-> TruncTo(f1, cur), pos |-> Len(f1), err |-> TRUE]
               ELSE [file |-> f, pos |-> p, err |-> TRUE]

\* Start-up of one store (store.go NewBlockHeaderStore / NewFilterHeaderStore).
\* Returns [ok, file, idx, tip].
\* asr = <<height, id>> is the filter header state assertion handed to
\* NewFilterHeaderStore (<<-1, -1>>: none): if the file has an entry at that
\* height and it is not the asserted one, the file is removed and the store
\* re-created with the genesis entry only (maybeResetHeaderState).
OpenStore(s, f0, ix, rx, tk, asr) ==
  IF Len(f0) = 0
  THEN \* empty file: (re-)initialise with the genesis entry
       [ok |-> TRUE, file |-> CellsOf(<<0>>),
        idx |-> IF s = "B" THEN [ix EXCEPT ![0] = 0] ELSE ix, tip |-> 0]
  ELSE LET f1 == IF FixTornTail /\ Len(f0) % 2 = 1
                 THEN SubSeq(f0, 1, Len(f0) - 1) ELSE f0
           th == Lk(ix, rx, tk)
           fh == (Len(f1) \div 2) - 1
           latest == ReadAt(f1, fh)
           reset == /\ s = "F" /\ asr[1] >= 0
                    /\ 2 * asr[1] + 2 <= Len(f1)
                    /\ ReadAt(f1, asr[1]) # asr[2]
       IN  IF reset THEN [ok |-> TRUE, file |-> CellsOf(<<0>>), idx |-> ix, tip |-> 0]
           ELSE IF th = NF \/ fh < 0 THEN [ok |-> FALSE, file |-> f1, idx |-> ix, tip |-> tk]
           ELSE IF s = "B" /\ latest = tk
                THEN [ok |-> TRUE, file |-> f1, idx |-> ix, tip |-> tk]
           ELSE IF fh - th < 0   \* unsigned underflow => Truncate(negative) fails
                THEN [ok |-> FALSE, file |-> f1, idx |-> ix, tip |-> tk]
           ELSE [ok |-> TRUE, file |-> TruncTo(f1, Len(f1) - 2 * (fh - th)),
                 idx |-> ix, tip |-> tk]

\* Close + open both stores (block store first, as neutrino.go does).
Assertion(as) ==
  CASE as = 1 -> <<0, 0>>                               \* matches the stored genesis entry
    [] as = 2 -> <<Len(abs.F) - 1, -7>>                   \* at the filter tip, some other hash
    [] as = 3 -> <<Len(abs.F), -7>>                       \* above the filter tip
    [] OTHER  -> <<-1, -1>>

OpenBoth(as) ==
  LET b == OpenStore("B", file.B, idx, ridx, tipk.B, <<-1, -1>>)
      f == OpenStore("F", file.F, b.idx, ridx, tipk.F, Assertion(as))
  IN  /\ file' = [B |-> b.file, F |-> f.file]
      /\ idx'  = f.idx
      /\ UNCHANGED <<ridx, leg>>
      /\ tipk' = [B |-> b.tip, F |-> f.tip]
      /\ pos'  = [B |-> 0, F |-> 0]
      /\ up'   = IF b.ok /\ f.ok THEN 1 ELSE 0

----------------------------------------------------------------------------
Unused == {i \in Ids : \A k \in 1..Len(abs.B) : abs.B[k] # i}

\* The k smallest ids not in the list (ids are interchangeable).
RECURSIVE Pick(_, _)
Pick(S, k) == IF k = 0 \/ S = {} THEN <<>>
              ELSE LET m == CHOOSE x \in S : \A y \in S : x <= y
                   IN  <<m>> \o Pick(S \ {m}, k - 1)

Stops(k) ==   \* where an append of k entries may stop
  {<<"none", 0>>}
  \cup (IF nfaults < MaxFaults /\ k > 0
        \* <<"idx", j>>: the (j+1)-th database update of the call fails.  The code
        \* at HEAD makes one update per call, so with j = 1 the call succeeds.
        THEN {<<"w", n>> : n \in 0..(2 * k - 1)} \cup {<<"idx", 0>>, <<"idx", 1>>} ELSE {})
  \cup (IF ncrashes < MaxCrashes /\ k > 0
        \* <<"cdb", j>>: the process dies right after the j-th database commit of the
        \* call.  The code at HEAD makes one commit per append (entries and tip in
        \* the same transaction), and it is the last durable step of the call.
        THEN {<<"cw", n>> : n \in 1..(2 * k - 1)} \cup {<<"cfile", 0>>, <<"cdb", 1>>} ELSE {})

Bump(st) ==
  /\ UNCHANGED leg
  /\ nops' = nops + 1
  /\ nfaults'  = IF st[1] \in {"w", "idx"} THEN nfaults + 1 ELSE nfaults
  /\ ncrashes' = IF st[1] \in {"cw", "cfile", "c1", "cdb"} THEN ncrashes + 1 ELSE ncrashes

Finish(a) ==
  /\ act'  = a
  /\ abs'  = AbsNext(abs, a, Obs')
  /\ viol' = Viol(abs, Obs, a, abs', Obs')

\* nc = number of database transactions the call COMMITTED (the driver's
\* walletdb.DB proxy counts them; a call that makes more commits than the
\* model says gets a crash point after each of them: adaptive pass of the
\* family module).  sc = Scale (tells the driver the batch-size class).
Act(op, batch, n, st, res, nc) ==
  [op |-> op, batch |-> batch, n |-> n, stop |-> st[1], sn |-> st[2], res |-> res,
   nc |-> nc, sc |-> Scale]

\* blockHeaderStore.WriteHeaders: appendRaw, then addHeaders (one bbolt tx);
\* if the index update fails: Sync + truncateHeaders(len(batch)).
AppendB(k, st) ==
  LET batch == Pick(Unused, k)
      cells == CellsOf(batch)
      h0    == Len(abs.B)         \* caller-supplied heights h0, h0+1, ...
      tipId == batch[Len(batch)]
      ixNew == [i \in Ids |-> IF \E j \in 1..Len(batch) : batch[j] = i
                              THEN h0 + (CHOOSE j \in 1..Len(batch) : batch[j] = i) - 1
                              ELSE idx[i]]
  IN
  /\ up = 1 /\ nops < MaxOps
  /\ Len(batch) = k /\ Len(abs.B) + k <= MaxLen
  /\ st \in Stops(k)
  /\ Bump(st) /\ UNCHANGED ridx
  /\ CASE st[1] \in {"cw", "cfile"} ->
            /\ file' = [file EXCEPT !.B = @ \o SubSeq(cells, 1,
                           IF st[1] = "cw" THEN st[2] ELSE Len(cells))]
            /\ UNCHANGED <<idx, tipk, pos>> /\ up' = 2
            /\ Finish(Act("AppendB", batch, 0, st, "crash", 0))
       [] st[1] = "cdb" ->
            LET r == AppendRaw(file.B, pos.B, cells, -1)
            IN  /\ file' = [file EXCEPT !.B = r.file]
                /\ idx' = ixNew /\ tipk' = [tipk EXCEPT !.B = tipId]
                /\ UNCHANGED pos /\ up' = 2
                /\ Finish(Act("AppendB", batch, 0, st, "crash", 1))
       [] st[1] = "w" ->
            LET r == AppendRaw(file.B, pos.B, cells, st[2])
            IN  /\ file' = [file EXCEPT !.B = r.file]
                /\ pos' = [pos EXCEPT !.B = r.pos]
                /\ UNCHANGED <<idx, tipk, up>>
                /\ Finish(Act("AppendB", batch, 0, st, "err", 0))
       [] st[1] = "idx" /\ st[2] = 0 ->
            LET r == AppendRaw(file.B, pos.B, cells, -1)
            IN  /\ file' = [file EXCEPT !.B = TruncTo(r.file, Len(r.file) - 2 * k)]
                /\ pos' = [pos EXCEPT !.B = r.pos]
                /\ UNCHANGED <<idx, tipk, up>>
                /\ Finish(Act("AppendB", batch, 0, st, "err", 0))
       [] OTHER ->
            LET r == AppendRaw(file.B, pos.B, cells, -1)
            IN  /\ file' = [file EXCEPT !.B = r.file]
                /\ pos' = [pos EXCEPT !.B = r.pos]
                /\ idx' = IF k = 0 THEN idx ELSE ixNew
                /\ tipk' = IF k = 0 THEN tipk ELSE [tipk EXCEPT !.B = tipId]
                /\ UNCHANGED up
                /\ Finish(Act("AppendB", batch, 0, st, "ok", IF k = 0 THEN 0 ELSE 1))

\* filterHeaderStore.WriteHeaders for the next k blocks: appendRaw, then the
\* filter tip key := block hash of the last one.
AppendF(k, st) ==
  LET batch == SubSeq(abs.B, Len(abs.F) + 1, Len(abs.F) + k)
      cells == CellsOf(batch)
  IN
  /\ up = 1 /\ nops < MaxOps
  /\ Len(abs.F) + k <= Len(abs.B)
  /\ st \in Stops(k)
  /\ Bump(st) /\ UNCHANGED ridx
  /\ CASE st[1] \in {"cw", "cfile"} ->
            /\ file' = [file EXCEPT !.F = @ \o SubSeq(cells, 1,
                           IF st[1] = "cw" THEN st[2] ELSE Len(cells))]
            /\ UNCHANGED <<idx, tipk, pos>> /\ up' = 2
            /\ Finish(Act("AppendF", batch, 0, st, "crash", 0))
       [] st[1] = "cdb" ->
            LET r == AppendRaw(file.F, pos.F, cells, -1)
            IN  /\ file' = [file EXCEPT !.F = r.file]
                /\ tipk' = [tipk EXCEPT !.F = batch[k]]
                /\ UNCHANGED <<idx, pos>> /\ up' = 2
                /\ Finish(Act("AppendF", batch, 0, st, "crash", 1))
       [] st[1] = "w" ->
            LET r == AppendRaw(file.F, pos.F, cells, st[2])
            IN  /\ file' = [file EXCEPT !.F = r.file]
                /\ pos' = [pos EXCEPT !.F = r.pos]
                /\ UNCHANGED <<idx, tipk, up>>
                /\ Finish(Act("AppendF", batch, 0, st, "err", 0))
       [] st[1] = "idx" /\ st[2] = 0 ->
            LET r == AppendRaw(file.F, pos.F, cells, -1)
            IN  /\ file' = [file EXCEPT !.F = TruncTo(r.file, Len(r.file) - 2 * k)]
                /\ pos' = [pos EXCEPT !.F = r.pos]
                /\ UNCHANGED <<idx, tipk, up>>
                /\ Finish(Act("AppendF", batch, 0, st, "err", 0))
       [] OTHER ->
            IF k = 0
            THEN /\ UNCHANGED cvars
                 /\ Finish(Act("AppendF", batch, 0, st, "ok", 0))
            ELSE LET r == AppendRaw(file.F, pos.F, cells, -1)
                 IN  /\ file' = [file EXCEPT !.F = r.file]
                     /\ pos' = [pos EXCEPT !.F = r.pos]
                     /\ tipk' = [tipk EXCEPT !.F = batch[k]]
                     /\ UNCHANGED <<idx, up>>
                     /\ Finish(Act("AppendF", batch, 0, st, "ok", 1))

\* "idx": the database update of the rollback (truncateIndices / the filter
\* tip update) reports an error.  With the index moved first nothing has
\* changed yet; with the file truncated first (~FixRollbackOrder) the file is
\* already shorter than the index says.
RbStops == {<<"none", 0>>}
           \cup (IF ncrashes < MaxCrashes THEN {<<"c1", 0>>} ELSE {})
           \cup (IF nfaults < MaxFaults THEN {<<"idx", 0>>, <<"idx", 1>>} ELSE {})

\* blockHeaderStore.RollbackBlockHeaders(n)
RollbackB(n, st) ==
  LET th   == IdxH(tipk.B)
      prev == ReadAt(file.B, th - n)
      gone == {ReadAt(file.B, h) : h \in (th - n + 1)..th} \cap Ids
      fT   == [file EXCEPT !.B = TruncTo(@, Len(@) - 2 * n)]
      \* deleteHeaderEntries: a root-bucket entry wins, else the sub-bucket entry
      iT   == [i \in Ids |-> IF i \in gone /\ ridx[i] = NF THEN NF ELSE idx[i]]
      rT   == [i \in Ids |-> IF i \in gone THEN NF ELSE ridx[i]]
      tT   == [tipk EXCEPT !.B = prev]
      bad  == th = NF \/ n > th \/ 2 * (th + 1) > Len(file.B)
      fileFirst == ~FixRollbackOrder
  IN
  /\ up = 1 /\ nops < MaxOps
  /\ Len(abs.B) - n >= Len(abs.F)          \* callers roll filters back first
  /\ st \in RbStops
  /\ Bump(st)
  /\ UNCHANGED pos
  /\ IF n = 0
     THEN /\ st[1] = "none" /\ UNCHANGED <<file, idx, ridx, tipk, up>>
          /\ Finish(Act("RollbackB", <<>>, n, st, "ok", 0))
     ELSE IF bad
     THEN /\ st[1] = "none" /\ UNCHANGED <<file, idx, ridx, tipk, up>>
          /\ Finish(Act("RollbackB", <<>>, n, st, "err", 0))
     ELSE IF st[1] = "c1"
     THEN /\ IF fileFirst THEN file' = fT /\ UNCHANGED <<idx, ridx, tipk>>
                          ELSE idx' = iT /\ ridx' = rT /\ tipk' = tT /\ UNCHANGED file
          /\ up' = 2
          /\ Finish(Act("RollbackB", <<>>, n, st, "crash", IF fileFirst THEN 0 ELSE 1))
     ELSE IF st[1] = "idx" /\ st[2] = 0
     THEN /\ IF fileFirst THEN file' = fT ELSE UNCHANGED file
          /\ UNCHANGED <<idx, ridx, tipk, up>>
          /\ Finish(Act("RollbackB", <<>>, n, st, "err", 0))
     ELSE /\ file' = fT /\ idx' = iT /\ ridx' = rT /\ tipk' = tT /\ UNCHANGED up
          /\ Finish(Act("RollbackB", <<>>, n, st, "ok", 1))

\* filterHeaderStore.RollbackLastBlock(newTip); newTip is what the block
\* manager passes: the hash of the block below the filter tip.
RollbackF(st) ==
  LET th   == IdxH(tipk.F)
      newT == IF Len(abs.F) >= 2 THEN abs.B[Len(abs.F) - 1] ELSE -1   \* at genesis: zero hash
      fT   == [file EXCEPT !.F = TruncTo(@, Len(@) - 2)]
      tT   == [tipk EXCEPT !.F = newT]
      bad  == th = NF \/ th = 0 \/ ReadAt(file.F, th - 1) = NF
      fileFirst == ~FixRollbackOrder
  IN
  /\ up = 1 /\ nops < MaxOps
  /\ Scale = 1               \* the API removes ONE real filter header per call: not a run-level step
  /\ Len(abs.F) >= 1          \* at length 1 this is a rollback past genesis: must fail, unchanged
  /\ st \in RbStops
  /\ Bump(st)
  /\ UNCHANGED <<pos, idx, ridx>>
  /\ IF bad
     THEN /\ st[1] = "none" /\ UNCHANGED <<file, tipk, up>>
          /\ Finish(Act("RollbackF", <<>>, 1, st, "err", 0))
     ELSE IF st[1] = "c1"
     THEN /\ IF fileFirst THEN file' = fT /\ UNCHANGED tipk
                          ELSE tipk' = tT /\ UNCHANGED file
          /\ up' = 2
          /\ Finish(Act("RollbackF", <<>>, 1, st, "crash", IF fileFirst THEN 0 ELSE 1))
     ELSE IF st[1] = "idx" /\ st[2] = 0
     THEN /\ IF fileFirst THEN file' = fT ELSE UNCHANGED file
          /\ UNCHANGED <<tipk, up>>
          /\ Finish(Act("RollbackF", <<>>, 1, st, "err", 0))
     ELSE /\ file' = fT /\ tipk' = tT /\ UNCHANGED up
          /\ Finish(Act("RollbackF", <<>>, 1, st, "ok", 1))

\* Orderly close + reopen. as = 1: the filter store is opened with a header
\* state assertion that MATCHES what is stored (neutrino.Config.AssertFilterHeader);
\* a passing assertion must not change anything about start-up.  as = 2: the
\* assertion names another filter header at the filter tip height: the filter
\* store is reset to genesis (and only it).  as = 3: the assertion is for a
\* height the store does not have: no effect.
Reopen(as) ==
  /\ up = 1 /\ nops < MaxOps
  /\ nops' = nops + 1 /\ UNCHANGED <<nfaults, ncrashes>>
  /\ OpenBoth(as)
  /\ Finish(Act("Reopen", <<>>, as, <<"none", 0>>, IF up' = 1 THEN "ok" ELSE "err", 0))

\* The process dies while no store call is running.
Crash ==
  /\ up = 1 /\ nops < MaxOps /\ ncrashes < MaxCrashes
  /\ nops' = nops + 1 /\ ncrashes' = ncrashes + 1 /\ UNCHANGED nfaults
  /\ up' = 2 /\ UNCHANGED <<file, pos, idx, ridx, leg, tipk>>
  /\ Finish(Act("Crash", <<>>, 0, <<"none", 0>>, "crash", 0))

\* Restart after a crash: all volatile state is gone, both stores are opened.
Recover(as) ==
  /\ up = 2
  /\ UNCHANGED <<nops, nfaults, ncrashes>>
  /\ OpenBoth(as)
  /\ Finish(Act("Recover", <<>>, as, <<"none", 0>>, IF up' = 1 THEN "ok" ELSE "err", 0))

\* Environment: the index as an older version (root-bucket layout) leaves it.
Legacy ==
  /\ up = 1 /\ nops < MaxOps /\ leg < MaxLegacy
  /\ nops' = nops + 1 /\ leg' = leg + 1 /\ UNCHANGED <<nfaults, ncrashes>>
  /\ ridx' = [i \in Ids |-> IF idx[i] # NF THEN idx[i] ELSE ridx[i]]
  /\ idx'  = [i \in Ids |-> NF]
  /\ UNCHANGED <<file, pos, tipk, up>>
  /\ Finish(Act("Legacy", <<>>, 0, <<"none", 0>>, "ok", 0))

Init ==
  /\ file = [B |-> CellsOf(<<0>>), F |-> CellsOf(<<0>>)]
  /\ pos  = [B |-> 0, F |-> 0]        \* stores opened on existing files (as the driver does)
  /\ idx  = [i \in Ids |-> IF i = 0 THEN 0 ELSE NF]
  /\ ridx = [i \in Ids |-> NF] /\ leg = 0
  /\ tipk = [B |-> 0, F |-> 0]
  /\ up = 1 /\ nops = 0 /\ nfaults = 0 /\ ncrashes = 0
  /\ abs = AbsInit
  /\ act = Act("Init", <<>>, 0, <<"none", 0>>, "ok", 0)
  /\ viol = {}

Next ==
  \/ \E k \in 0..MaxBatch : \E st \in Stops(k) : AppendB(k, st)
  \/ \E k \in 0..MaxBatch : \E st \in Stops(k) : AppendF(k, st)
  \/ \E n \in 0..(MaxLen + 1) : \E st \in RbStops : RollbackB(n, st)
  \/ \E st \in RbStops : RollbackF(st)
  \/ \E as \in {0, 1, 2, 3} : Reopen(as)
  \/ Legacy
  \/ Crash
  \/ \E as \in {0, 1} : Recover(as)

Spec == Init /\ [][Next]_vars

----------------------------------------------------------------------------
TypeOK ==
  /\ up \in {0, 1, 2}
  /\ \A s \in {"B", "F"} : pos[s] \in Nat
  /\ \A i \in Ids : idx[i] \in (0..MaxLen) \cup {NF}
  /\ \A i \in Ids : ridx[i] \in (0..MaxLen) \cup {NF}
  /\ leg \in 0..1

\* Design-level statement of C07/C08 on the model (see MC*.cfg: it is listed
\* as an invariant only in configurations whose switches describe repaired
\* code; otherwise violating transitions are exported and replayed).
NoViolation == viol = {}

\* The caller-visible abstract lists never exceed the bound (sanity).
AbsBounded == Len(abs.B) <= MaxLen /\ Len(abs.F) <= Len(abs.B)

\* Everything except the labels; a state's identity for graph export.
State == [file |-> file, pos |-> pos, idx |-> idx, ridx |-> ridx, leg |-> leg, tipk |-> tipk, up |-> up,
          nops |-> nops, nfaults |-> nfaults, ncrashes |-> ncrashes,
          abs |-> [B |-> abs.B, F |-> abs.F, alt |-> abs.alt, crashed |-> abs.crashed]]
View == <<file, pos, idx, ridx, leg, tipk, up, nops, nfaults, ncrashes, abs>>
=============================================================================
