--------------------------- MODULE HeaderStoreProps ---------------------------
(***************************************************************************)
(* Properties C07 (append/rollback log, reopen, failed append) and C08     *)
(* (crash recovery) of the headerfs stores, stated over OBSERVABLES only:  *)
(* what the public read API of the two stores returns.  The same operators *)
(* are evaluated by TLC (a) on every transition of HeaderStore.tla and     *)
(* (b) on every step of every trace observed on the real headerfs code.    *)
(*                                                                         *)
(* Encoding (integers only, TLC cannot compare ints with strings):         *)
(*   header ids 0..N-1 (0 = genesis); NF = not found / error on that read, *)
(*   G = something was returned that is not the expected header (garbage / *)
(*   shifted / unknown), ERR = the whole call failed.                      *)
(*   obs.B = [tip |-> <<id,height>>, byH |-> Seq (index height+1),         *)
(*            hOf |-> Seq (index id+1) HeightFromHash,                     *)
(*            byHash |-> Seq (index id+1) id returned by FetchHeader,      *)
(*            anc |-> FetchHeaderAncestors(tipHeight, tip),                *)
(*            loc |-> LatestBlockLocator,                                  *)
(*            locOf |-> Seq (index id+1) BlockLocatorFromHash(hash of id)] *)
(*   obs.F = [tip, byH, byHash, anc] for the filter-header store, filter   *)
(*            headers being named by the id of the block they belong to.   *)
(*   obs.up = 1 if both stores are open, 0 if opening failed.              *)
(* act = [op, batch, n, stop, res] with res in {"ok","err","crash"}.       *)
(***************************************************************************)
EXTENDS Integers, Sequences, FiniteSets

NF  == -1
G   == -2
ERR == -3

Rev(s) == [i \in 1..Len(s) |-> s[Len(s) + 1 - i]]

PosOf(s, x) == IF \E i \in 1..Len(s) : s[i] = x
               THEN CHOOSE i \in 1..Len(s) : s[i] = x ELSE 0

\* What a plain list b (block ids by height) answers to every block-store read.
ExpB(b, N, H) ==
  [tip    |-> <<b[Len(b)], Len(b) - 1>>,
   byH    |-> [h \in 1..H |-> IF h <= Len(b) THEN b[h] ELSE NF],
   hOf    |-> [i \in 1..N |-> IF PosOf(b, i-1) > 0 THEN PosOf(b, i-1) - 1 ELSE NF],
   byHash |-> [i \in 1..N |-> IF PosOf(b, i-1) > 0 THEN i-1 ELSE NF],
   anc    |-> b,
   loc    |-> Rev(b),
   locOf  |-> [i \in 1..N |-> IF PosOf(b, i-1) > 0 THEN Rev(SubSeq(b, 1, PosOf(b, i-1)))
                              ELSE <<i-1>>]]   \* not in the list: the locator is just the hash asked for

\* What plain lists (b, f) answer to every filter-store read.  f is a prefix
\* of b by construction of the operations.
ExpF(b, f, N, H) ==
  [tip    |-> <<f[Len(f)], Len(f) - 1>>,
   byH    |-> [h \in 1..H |-> IF h <= Len(f) THEN f[h] ELSE NF],
   byHash |-> [i \in 1..N |-> IF PosOf(f, i-1) > 0 THEN i-1 ELSE NF],
   anc    |-> f]

Matches(o, a) ==
  LET N == Len(o.B.hOf)
      H == Len(o.B.byH)
  IN  /\ o.up = 1
      /\ o.B = ExpB(a.B, N, H)
      /\ o.F = ExpF(a.B, a.F, N, H)

----------------------------------------------------------------------------
\* The abstract machine: two plain lists, plus, while a crash is pending, the
\* set of contents the statement of C08 allows after recovery.
AbsInit == [B |-> <<0>>, F |-> <<0>>, alt |-> {}, crashed |-> FALSE]

Lists(a) == [B |-> a.B, F |-> a.F]

After(a, act) ==
  CASE act.op = "AppendB"   -> [B |-> a.B \o act.batch, F |-> a.F]
    [] act.op = "AppendF"   -> [B |-> a.B, F |-> a.F \o act.batch]
    [] act.op = "RollbackB" -> [B |-> SubSeq(a.B, 1, Len(a.B) - act.n), F |-> a.F]
    [] act.op = "RollbackF" -> [B |-> a.B, F |-> SubSeq(a.F, 1, Len(a.F) - 1)]
    [] OTHER                -> Lists(a)

\* Reopening with a header state assertion that contradicts the stored filter
\* header (act.n = 2) deliberately resets the FILTER store to genesis
\* (neutrino.Config.AssertFilterHeader).  The property does not speak about
\* that option, so either outcome is taken as the new filter list; the block
\* store must not change.
ResetSeen(act, o2) ==
  /\ act.op = "Reopen" /\ act.n = 2 /\ act.res = "ok"
  /\ o2.up = 1 /\ o2.F.tip = <<0, 0>>

AbsNext(a, act, o2) ==
  CASE act.op = "Recover" ->
         LET m == {x \in a.alt : Matches(o2, x)}
             c == IF m = {} THEN Lists(a) ELSE CHOOSE x \in m : TRUE
         IN  [B |-> c.B, F |-> c.F, alt |-> {}, crashed |-> TRUE]
    [] act.res = "crash" ->
         [a EXCEPT !.alt = {Lists(a), After(a, act)}, !.crashed = TRUE]
    [] ResetSeen(act, o2) -> [a EXCEPT !.F = <<0>>]
    [] act.res = "ok" ->
         LET c == After(a, act)
         IN  [a EXCEPT !.B = c.B, !.F = c.F]
    [] act.op \in {"RollbackB", "RollbackF"} /\ act.res = "err" /\ act.stop # "none" ->
         \* a rollback that reports an injected write error: the statement does
         \* not say which of the two lists the store must then hold; it must
         \* be one of them (ListRefinement judges the match)
         LET c == After(a, act)
         IN  IF Matches(o2, [B |-> c.B, F |-> c.F]) THEN [a EXCEPT !.B = c.B, !.F = c.F] ELSE a
    [] OTHER -> a

IsAppend(act) == act.op \in {"AppendB", "AppendF"}

Viol(a, o, act, a2, o2) ==
  IF act.res = "crash" THEN {}          \* nothing is observable until Recover
  ELSE IF act.op = "Recover" THEN
       (IF o2.up # 1 THEN {"RecoverOpens"} ELSE {})
       \cup (IF o2.up = 1 /\ ~ \E x \in a.alt : Matches(o2, x)
             THEN {"RecoveredContentLegal"} ELSE {})
       \cup (IF o2.up = 1 /\ \E h \in 1..Len(o2.B.byH) :
                    \/ (h <= o2.B.tip[2] + 1 /\ o2.B.byH[h] \in {G, NF})
                    \/ (h <= o2.F.tip[2] + 1 /\ o2.F.byH[h] \in {G, NF})
             THEN {"NoTornEntry"} ELSE {})
       \cup (IF o2.up = 1 /\ o2.F.tip[2] > o2.B.tip[2]
             THEN {"FilterNotAhead"} ELSE {})
  ELSE (IF ~Matches(o2, a2)
        THEN {IF a.crashed THEN "PostCrashRefinement" ELSE "ListRefinement"}
        ELSE {})
       \cup (IF act.op = "Reopen" /\ (o2.up # o.up \/ o2.B # o.B \/ (act.n # 2 /\ o2.F # o.F))
             THEN {"ReopenPreserves"} ELSE {})
       \cup (IF IsAppend(act) /\ act.res = "err" /\ (o2.up # o.up \/ o2.B # o.B \/ o2.F # o.F)
             THEN {"FailedAppendLeavesStore"} ELSE {})

EndViol(a, o) == {}
=============================================================================
