----------------------------- MODULE HSRaceProps -----------------------------
(***************************************************************************)
(* Properties of the "reader against writer" slice of the HeaderStore      *)
(* family (C01 sentence 2, C07 sentence 1 under concurrency).              *)
(*                                                                         *)
(* One goroutine W performs block-/filter-store operations one after the   *)
(* other, one goroutine R performs read calls one after the other.  A      *)
(* plain in-memory list subjected to the same operations is changed        *)
(* atomically by each operation at SOME instant between the operation's    *)
(* call and its return, and a read of such a list answers from the list as *)
(* it is at SOME instant between the read's call and its return.  Hence    *)
(* the value a completed read returns must be the answer of one of         *)
(*     L_lo .. L_hi                                                        *)
(* where L_j is the pair of lists after the first j writer operations,     *)
(* lo = number of operations that had RETURNED when the read was called,   *)
(* hi = number of operations that had been CALLED when the read returned.  *)
(* Anything else (e.g. a header that is not the one with the requested     *)
(* hash in any of those lists) is a mixture of two states.  Reads are made *)
(* one after the other: a later read cannot answer from an earlier list    *)
(* than the read before it did (lookups agree with one another).           *)
(*                                                                         *)
(* A trace is a sequence of scheduler steps.  act =                        *)
(*   [op   "R" | "W"            the goroutine that was released            *)
(*    ph   "start" | "step"     "start": this step CALLS `call`            *)
(*    call                      name of the call the goroutine is in       *)
(*    arg, n, batch             its arguments (ids / heights, integers)    *)
(*    pc                        where the goroutine is after the step: a   *)
(*                              gate name, "blk" (on a store mutex), "ret" *)
(*                              (the call returned) or "skip" (schedule    *)
(*                              command not applicable, nothing happened)  *)
(*    res  "" | "ok" | "err" | "panic"   outcome when pc = "ret"           *)
(*    val                       read result projected to ids when a read   *)
(*                              returns, <<>> otherwise]                   *)
(* Read results: FetchHeader <<id, height>>, ByHeight <<id>>, ChainTip     *)
(* <<id, height>>, HeightFromHash <<height>>, Ancestors <<start>> \o ids,  *)
(* Locator ids (tip first); NF = not found, G = bytes of no known header,  *)
(* ERR = the call failed.                                                  *)
(* obs.l0 = <<lb, lf>>: lengths of the two lists at the start (block ids   *)
(* 0..lb-1, filter headers 0..lf-1); the rest of obs is the raw store      *)
(* content and only used to measure drift.                                 *)
(*                                                                         *)
(* The list answers are those of HeaderStoreProps (ExpB / ExpF / After).   *)
(***************************************************************************)
EXTENDS Integers, Sequences, FiniteSets

HS == INSTANCE HeaderStoreProps

NF  == -1
G   == -2
ERR == -3

MaxN == 8      \* upper bounds on ids / heights used by any configuration
MaxH == 8

EB(L) == HS!ExpB(L.B, MaxN, MaxH)
EF(L) == HS!ExpF(L.B, L.F, MaxN, MaxH)

HOf(L, i) == EB(L).hOf[i + 1]

\* What the pair of plain lists L answers to the read `call`.
Answer(L, call, arg, n) ==
  CASE call = "FetchHeader"    -> <<EB(L).byHash[arg + 1], HOf(L, arg)>>
    [] call = "ByHeight"       -> <<EB(L).byH[arg + 1]>>
    [] call = "ChainTip"       -> EB(L).tip
    [] call = "HeightFromHash" -> <<HOf(L, arg)>>
    [] call = "Ancestors"      ->
         LET p == HOf(L, arg)
         IN  IF p = NF \/ n > p THEN <<ERR>>
             ELSE <<p - n>> \o SubSeq(L.B, p - n + 1, p + 1)
    [] call = "Locator"        -> EB(L).loc
    [] call = "FFetchHeader"   -> <<EF(L).byHash[arg + 1]>>
    [] call = "FByHeight"      -> <<EF(L).byH[arg + 1]>>
    [] call = "FChainTip"      -> EF(L).tip
    [] call = "FAncestors"     ->
         LET p == HOf(L, arg)
         IN  IF p = NF \/ n > p \/ p + 1 > Len(L.F) THEN <<ERR>>
             ELSE <<p - n>> \o SubSeq(L.F, p - n + 1, p + 1)
    [] OTHER                   -> <<ERR>>

ClauseOf(call) ==
  CASE call \in {"FetchHeader", "ByHeight", "ChainTip", "HeightFromHash"} -> "BlockLookupAtomic"
    [] call \in {"Ancestors", "FAncestors"}                               -> "AncestorsAtomic"
    [] call = "Locator"                                                   -> "LocatorAtomic"
    [] OTHER                                                              -> "FilterLookupAtomic"

----------------------------------------------------------------------------
\* abstract state:
\*   lists  L_0, L_1, ... : the pair of lists after every operation CALLED so far
\*   nd     number of operations that have RETURNED
\*   fl     index of the earliest list the next read may answer from: reads are
\*          made one after the other, so a read cannot answer from an earlier
\*          list than the one the read before it answered from ("lookups agree
\*          with one another"); the earliest possible choice is kept
\*   rs     while a read is in progress: the earliest list it may answer from
\*          (max of fl and nd when it was called), -1 otherwise
AbsInit == [init |-> 0, lists |-> <<[B |-> <<0>>, F |-> <<0>>]>>, nd |-> 0, fl |-> 0, rs |-> -1]

Start(o) ==
  LET L == [B |-> [k \in 1..o.l0[1] |-> k - 1], F |-> [k \in 1..o.l0[2] |-> k - 1]]
  IN  [init |-> 1, lists |-> <<L>>, nd |-> 0, fl |-> 0, rs |-> -1]

Applied(L, act) == HS!After(L, [op |-> act.call, batch |-> act.batch, n |-> act.n])

Max(a, b) == IF a >= b THEN a ELSE b

\* indices of the lists that give the value the read returned
Fits(a, lo, act) ==
  {j \in lo..(Len(a.lists) - 1) : Answer(a.lists[j + 1], act.call, act.arg, act.n) = act.val}

\* abstract state after the part of a step that CALLS something
Called(a, act) ==
  IF act.ph # "start" THEN a
  ELSE IF act.op = "W"
       THEN [a EXCEPT !.lists = Append(@, Applied(@[Len(@)], act))]
       ELSE [a EXCEPT !.rs = Max(a.fl, a.nd)]

AbsNext(a0, act, o2) ==
  LET a == IF a0.init = 0 THEN Start(o2) ELSE a0
  IN  IF act.op = "Init" \/ act.pc = "skip" THEN a
      ELSE LET a1 == Called(a, act)
           IN  IF act.pc # "ret" THEN a1
               ELSE IF act.op = "W"
               THEN IF act.res = "ok" THEN [a1 EXCEPT !.nd = @ + 1]
                    ELSE \* an operation that reports failure changes nothing
                         [a1 EXCEPT !.nd = @ + 1,
                                    !.lists = [@ EXCEPT ![Len(@)] = a1.lists[Len(a1.lists) - 1]]]
               ELSE LET J == Fits(a1, a1.rs, act)
                    IN  [a1 EXCEPT !.rs = -1,
                                   !.fl = IF J = {} THEN a1.fl ELSE CHOOSE j \in J : \A k \in J : j <= k]

Viol(a0, o, act, a2, o2) ==
  IF act.op = "R" /\ act.pc = "ret"
  THEN LET a  == IF a0.init = 0 THEN Start(o2) ELSE a0
           a1 == Called(a, act)
       IN  IF Fits(a1, a1.rs, act) # {} THEN {} ELSE {ClauseOf(act.call)}
  ELSE {}

EndViol(a, o) == {}
=============================================================================
